/* nvec.h -- C rendering of the std::vector members used by the extracted nifly functions.
 *
 * std::vector<T>  ==>  struct { T *data; size_t size; }  with a buffer of CAP elements (capacity abstraction:
 * growth beyond CAP is excluded, reallocation / iterator invalidation / bad_alloc are not modelled; DESIGN.md 3.2).
 * Members that need a loop (erase-at, insert-at, assign, fill) are contract-only here and are verified once against
 * a loop implementation in contracts/SHIM.spec (unit names shim_*).  Growth leaves the new slots UNCONSTRAINED
 * (a sound over-approximation of value-initialisation) unless a unit asks for the *_z variants.
 */
#ifndef NVEC_H
#define NVEC_H
#include <stdint.h>
#include <stddef.h>
#include <stdlib.h>

#ifndef CAP
#define CAP 65536
#endif

typedef uint64_t elem_t;      /* opaque element token for templates that only move elements (parametricity) */

/* validity of a vector object passed by reference */
#define VEC_FRESH(v, T) (__CPROVER_is_fresh((v), sizeof(*(v))) && __CPROVER_is_fresh((v)->data, CAP * sizeof(T)) && (v)->size <= CAP)
/* validity of a vector member of an already valid struct */
#define VECM_FRESH(m, T) (__CPROVER_is_fresh((m).data, CAP * sizeof(T)) && (m).size <= CAP)

/* strictly ascending index list (pairwise form; the adjacent form needs an induction the solver will not do) */
#ifdef BOUNDED
/* bounded triage runs (CAP <= 8, SAT): the same fact spelled out without quantifiers */
#define ADJ_(v, k) ((size_t)(k) + 1 >= (v)->size || (v)->data[k] < (v)->data[(k) + 1])
#define SORTED_ASC(v) (ADJ_(v, 0) && ADJ_(v, 1) && ADJ_(v, 2) && ADJ_(v, 3) && ADJ_(v, 4) && ADJ_(v, 5) && ADJ_(v, 6))
#else
#define SORTED_ASC(v) __CPROVER_forall { size_t i_; __CPROVER_forall { size_t j_; (i_ < j_ && j_ < (v)->size) ==> (v)->data[i_] < (v)->data[j_] } }
#endif
/* p == number of entries of the sorted list v that are < x (a lower bound position); unique by sortedness */
#define LB(v, p, x) ((p) <= (v)->size && ((p) == 0 || (v)->data[(p)-1] < (x)) && ((p) == (v)->size || (v)->data[(p)] >= (x)))

#define VEC_SHIMS(V, T)                                                                                        \
	static inline V V##_new(void) { V r; r.data = (T *)malloc(CAP * sizeof(T)); r.size = 0; return r; }        \
	void V##_grow(V *v, size_t n)                                                                              \
		__CPROVER_requires(n <= CAP && n >= v->size)                                                           \
		__CPROVER_assigns(v->size, __CPROVER_object_from(v->data + v->size))                                   \
		__CPROVER_ensures(v->size == n);                                                                       \
	static inline void V##_resize(V *v, size_t n) { if (n <= v->size) v->size = n; else V##_grow(v, n); }      \
	void V##_ctor_n(V *v, size_t n)                                                                            \
		__CPROVER_requires(n <= CAP)                                                                           \
		__CPROVER_assigns(v->size, __CPROVER_object_whole(v->data))                                            \
		__CPROVER_ensures(v->size == n);

/* erase(begin()+i) / insert(begin()+i, x) / push_back on tables of scalar elements: contract-only here, verified once against
   their loop implementations (units shim_erase_at / shim_insert_at in contracts/SHIM.spec).  gh_e_<V> is the witness index
   (declared and havocked by the generated harness): the contract says where the slot's value comes from. */
#define GE_(V) (gh_e_##V < CAP ? gh_e_##V : 0)
#define GE1_(V) (gh_e_##V + 1 < CAP ? gh_e_##V + 1 : 0)
#ifdef SHIM_IMPL
/* bounded (unwinding) runs execute the shift loop itself instead of using the contract */
#define VEC_SHIMS_ERASE(V, T)                                                                                   \
	static inline void V##_erase_at(V *v, size_t i) { for (size_t k_ = i; k_ + 1 < v->size; k_++) v->data[k_] = v->data[k_ + 1]; v->size--; }
#else
#define VEC_SHIMS_ERASE(V, T)                                                                                   \
	void V##_erase_at(V *v, size_t i)                                                                           \
		__CPROVER_requires(i < v->size && v->size <= CAP)                                                       \
		__CPROVER_assigns(v->size, __CPROVER_object_whole(v->data))                                             \
		__CPROVER_ensures(v->size == __CPROVER_old(v->size) - 1)                                                \
		__CPROVER_ensures((gh_e_##V < i) ==> v->data[GE_(V)] == __CPROVER_old(v->data[GE_(V)]))                 \
		__CPROVER_ensures((gh_e_##V >= i && gh_e_##V < v->size) ==> v->data[GE_(V)] == __CPROVER_old(v->data[GE1_(V)]));

#endif

/* std::sort over a whole vector.  Bounded runs execute an insertion sort; contract runs ASSUME "sorted" only (the
   permutation property of std::sort is part of the trusted base there). */
#ifdef SHIM_IMPL
#define VEC_SHIMS_SORT(V, T)                                                                                     \
	static inline void V##_sort_desc(V *v) { for (size_t a_ = 1; a_ < v->size; a_++) { T x_ = v->data[a_]; size_t b_ = a_; while (b_ > 0 && v->data[b_ - 1] < x_) { v->data[b_] = v->data[b_ - 1]; b_--; } v->data[b_] = x_; } } \
	static inline void V##_sort_asc(V *v) { for (size_t a_ = 1; a_ < v->size; a_++) { T x_ = v->data[a_]; size_t b_ = a_; while (b_ > 0 && v->data[b_ - 1] > x_) { v->data[b_] = v->data[b_ - 1]; b_--; } v->data[b_] = x_; } }
#else
#define VEC_SHIMS_SORT(V, T)                                                                                     \
	void V##_sort_desc(V *v) __CPROVER_requires(v->size <= CAP) __CPROVER_assigns(__CPROVER_object_whole(v->data))  \
		__CPROVER_ensures(__CPROVER_forall { size_t i_; __CPROVER_forall { size_t j_; (i_ < j_ && j_ < v->size) ==> v->data[i_] >= v->data[j_] } }); \
	void V##_sort_asc(V *v) __CPROVER_requires(v->size <= CAP) __CPROVER_assigns(__CPROVER_object_whole(v->data))   \
		__CPROVER_ensures(__CPROVER_forall { size_t i_; __CPROVER_forall { size_t j_; (i_ < j_ && j_ < v->size) ==> v->data[i_] <= v->data[j_] } });
#endif

/* resize(n, value) / vector(n, value) */
#ifdef SHIM_IMPL
#define VEC_SHIMS_FILL(V, T)                                                                                     \
	static inline void V##_resize_fill(V *v, size_t n, T val) { for (size_t k_ = v->size; k_ < n; k_++) v->data[k_] = val; v->size = n; }
#else
#define VEC_SHIMS_FILL(V, T)                                                                                     \
	void V##_resize_fill(V *v, size_t n, T val)                                                                  \
		__CPROVER_requires(n <= CAP)                                                                             \
		__CPROVER_assigns(v->size, __CPROVER_object_whole(v->data))                                              \
		__CPROVER_ensures(v->size == n)                                                                          \
		__CPROVER_ensures((gh_f_##V < n && gh_f_##V >= __CPROVER_old(v->size)) ==> v->data[gh_f_##V < CAP ? gh_f_##V : 0] == val) \
		__CPROVER_ensures((gh_f_##V < n && gh_f_##V < __CPROVER_old(v->size)) ==> v->data[gh_f_##V < CAP ? gh_f_##V : 0] == __CPROVER_old(v->data[gh_f_##V < CAP ? gh_f_##V : 0]));
#endif

/* find(vector, value) as a POSITION (size == not found): the search loop itself, for bounded (unwinding) units only */
#define VEC_SHIMS_FIND(V, T)                                                                                     \
	static inline size_t V##_find(V *v, T x) { size_t k_ = 0; while (k_ < v->size && !(v->data[k_] == x)) k_++; return k_; }

/* std::binary_search(v.begin(), v.end(), x): lower_bound by halving (the libstdc++ algorithm), then the equality test */
#define VEC_SHIMS_BSEARCH(V, T)                                                                                  \
	static inline _Bool V##_bsearch(V *v, T x) { size_t first_ = 0, len_ = v->size; while (len_ > 0) { size_t half_ = len_ >> 1; size_t mid_ = first_ + half_; if (v->data[mid_] < x) { first_ = mid_ + 1; len_ = len_ - half_ - 1; } else len_ = half_; } return first_ != v->size && !(x < v->data[first_]); }

/* whole-vector copy assignment: bounded runs execute the element loop (contract runs bring their own witness-form stub) */
#ifdef SHIM_IMPL
#define VEC_SHIMS_ASSIGN(V, T)                                                                                   \
	static inline void V##_assign(V *d, V *s) { for (size_t k_ = 0; k_ < s->size; k_++) d->data[k_] = s->data[k_]; d->size = s->size; }
#else
#define VEC_SHIMS_ASSIGN(V, T)
#endif

#endif
