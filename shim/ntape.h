/* ntape.h -- byte tape standing in for NiStreamReversible in extracted Sync FRAGMENTS (DESIGN.md 3.2).
 * Writing appends little-endian bytes; reading consumes them.  A read that crosses `end` stores the available prefix of
 * bytes and leaves the remaining destination bytes unchanged (what istream::read does before setting failbit).
 * iostream state flags, locale and exceptions are not modelled. */
#ifndef NTAPE_H
#define NTAPE_H
#include <stdint.h>
#include <stddef.h>
#ifndef TAPE_N
#define TAPE_N 16
#endif
typedef struct { uint32_t file, user, stream; } NiVersion;
typedef struct { uint8_t buf[TAPE_N]; size_t pos; size_t end; int mode; NiVersion version; } tape_t;
#define MODE_READING 0
#define MODE_WRITING 1
static inline int NiStreamReversible__GetMode(tape_t *t) { return t->mode; }
static inline NiVersion *NiStreamReversible__GetVersion(tape_t *t) { return &t->version; }
static inline uint32_t NiVersion__Stream(NiVersion *v) { return v->stream; }
static inline uint32_t NiVersion__User(NiVersion *v) { return v->user; }
static inline uint32_t NiVersion__File(NiVersion *v) { return v->file; }
static inline void tape_byte(tape_t *t, uint8_t *b)
{
	if (t->mode == MODE_WRITING) { if (t->pos < TAPE_N) t->buf[t->pos] = *b; t->pos++; if (t->end < t->pos) t->end = t->pos; }
	else { if (t->pos < t->end && t->pos < TAPE_N) { *b = t->buf[t->pos]; t->pos++; } }
}
static inline void TAPE_SYNC_u32(tape_t *t, uint32_t *v)
{
	uint8_t b0 = (uint8_t)(*v), b1 = (uint8_t)(*v >> 8), b2 = (uint8_t)(*v >> 16), b3 = (uint8_t)(*v >> 24);
	tape_byte(t, &b0); tape_byte(t, &b1); tape_byte(t, &b2); tape_byte(t, &b3);
	if (t->mode == MODE_READING) *v = (uint32_t)b0 | ((uint32_t)b1 << 8) | ((uint32_t)b2 << 16) | ((uint32_t)b3 << 24);
}
static inline void TAPE_SYNC_u16(tape_t *t, uint16_t *v)
{
	uint8_t b0 = (uint8_t)(*v), b1 = (uint8_t)(*v >> 8);
	tape_byte(t, &b0); tape_byte(t, &b1);
	if (t->mode == MODE_READING) *v = (uint16_t)((uint16_t)b0 | ((uint16_t)b1 << 8));
}
static inline void TAPE_SYNC_u8(tape_t *t, uint8_t *v) { tape_byte(t, v); }
#endif
