#include <vector>
typedef unsigned short uint16_t;
typedef unsigned long uint64_t;
namespace nifly {
template<typename VectorType, typename IndexType>
void EraseVectorIndices(VectorType& v, const std::vector<IndexType>& indices) {
	if (indices.empty() || indices[0] >= v.size())
		return;

	size_t indi = 1;
	IndexType di = indices[0];
	IndexType si = di + 1;
	for (; si < v.size(); ++si) {
		if (indi < indices.size() && si == indices[indi])
			++indi;
		else
			v[di++] = std::move(v[si]);
	}

	v.resize(di);
}
}
extern "C" void w_Erase(std::vector<uint64_t>* v, const std::vector<uint16_t>* ind) {
  nifly::EraseVectorIndices<std::vector<uint64_t>, uint16_t>(*v, *ind);
}
extern "C" void harness() { std::vector<uint64_t>* v; const std::vector<uint16_t>* i; w_Erase(v, i); }
