#include <stdint.h>
#include <stddef.h>
#ifndef MAXN
#define MAXN 65536
#endif
typedef struct { uint16_t p1, p2, p3; } Triangle;
typedef struct { Triangle *data; size_t size; } vec_Triangle;
typedef struct { int *data; size_t size; } vec_int;

/* witness: source triangle position gh_k, its old value gh_t */
size_t gh_k; Triangle gh_t; 
/* ghost outputs maintained by invariant only (not assigned by code) */
#define KEPT(t, map) ((t).p1 < (map)->size && (t).p2 < (map)->size && (t).p3 < (map)->size && (map)->data[(t).p1] >= 0 && (map)->data[(t).p2] >= 0 && (map)->data[(t).p3] >= 0)

/* C rendering of ApplyMapToTriangles<int,int>(tris, map, deletedTris) */
void ApplyMapToTriangles_int_int(vec_Triangle *tris, const vec_int *map, vec_int *deletedTris, size_t *gh_pos /* ghost out: new position of witness */)
__CPROVER_requires(__CPROVER_is_fresh(tris, sizeof(*tris)) && __CPROVER_is_fresh(map, sizeof(*map)) && __CPROVER_is_fresh(deletedTris, sizeof(*deletedTris)) && __CPROVER_is_fresh(gh_pos, sizeof(*gh_pos)))
__CPROVER_requires(tris->size <= MAXN && map->size <= MAXN && deletedTris->size == 0)
__CPROVER_requires(__CPROVER_is_fresh(tris->data, MAXN * sizeof(Triangle)))
__CPROVER_requires(__CPROVER_is_fresh(map->data, MAXN * sizeof(int)))
__CPROVER_requires(__CPROVER_is_fresh(deletedTris->data, MAXN * sizeof(int)))
__CPROVER_requires(gh_k < tris->size && gh_t.p1 == tris->data[gh_k].p1 && gh_t.p2 == tris->data[gh_k].p2 && gh_t.p3 == tris->data[gh_k].p3)
__CPROVER_assigns(tris->size, __CPROVER_object_whole(tris->data), deletedTris->size, __CPROVER_object_whole(deletedTris->data), *gh_pos)
__CPROVER_ensures(tris->size + deletedTris->size == __CPROVER_old(tris->size))
__CPROVER_ensures(KEPT(gh_t, map) ==> (*gh_pos < tris->size && *gh_pos <= gh_k && tris->data[*gh_pos].p1 == (uint16_t)map->data[gh_t.p1] && tris->data[*gh_pos].p2 == (uint16_t)map->data[gh_t.p2] && tris->data[*gh_pos].p3 == (uint16_t)map->data[gh_t.p3]))
__CPROVER_ensures(!KEPT(gh_t, map) ==> (*gh_pos < deletedTris->size && deletedTris->data[*gh_pos] == (int)gh_k))
{
	const size_t mapsz = map->size;
	int di = 0;
	for (int si = 0; si < (int)(tris->size); ++si)
	__CPROVER_assigns(si, di, tris->size, __CPROVER_object_whole(tris->data), deletedTris->size, __CPROVER_object_whole(deletedTris->data), *gh_pos)
	__CPROVER_loop_invariant(0 <= si && (size_t)si <= tris->size && 0 <= di && di <= si && (size_t)di + deletedTris->size == (size_t)si)
	__CPROVER_loop_invariant(tris->size == __CPROVER_loop_entry(tris->size))
	__CPROVER_loop_invariant((size_t)si <= gh_k ==> (tris->data[gh_k].p1 == gh_t.p1 && tris->data[gh_k].p2 == gh_t.p2 && tris->data[gh_k].p3 == gh_t.p3))
	__CPROVER_loop_invariant(((size_t)si > gh_k && KEPT(gh_t, map)) ==> (*gh_pos < (size_t)di && *gh_pos <= gh_k && tris->data[*gh_pos].p1 == (uint16_t)map->data[gh_t.p1] && tris->data[*gh_pos].p2 == (uint16_t)map->data[gh_t.p2] && tris->data[*gh_pos].p3 == (uint16_t)map->data[gh_t.p3]))
	__CPROVER_loop_invariant(((size_t)si > gh_k && !KEPT(gh_t, map)) ==> (*gh_pos < deletedTris->size && deletedTris->data[*gh_pos] == (int)gh_k))
	__CPROVER_decreases((int)tris->size - si)
	{
		const Triangle *stri = &tris->data[si];
		if (stri->p1 >= mapsz || stri->p2 >= mapsz || stri->p3 >= mapsz || map->data[stri->p1] < 0 || map->data[stri->p2] < 0
			|| map->data[stri->p3] < 0) {
			if (deletedTris) {
				if ((size_t)si == gh_k) *gh_pos = deletedTris->size;   /* ghost */
				deletedTris->data[deletedTris->size++] = si;            /* push_back shim inlined */
			}
			continue;
		}
		Triangle *dtri = &tris->data[di];
		if ((size_t)si == gh_k) *gh_pos = (size_t)di;                   /* ghost */
		uint16_t a = (uint16_t)(map->data[stri->p1]);
		uint16_t b = (uint16_t)(map->data[stri->p2]);
		uint16_t c = (uint16_t)(map->data[stri->p3]);
		dtri->p1 = a; dtri->p2 = b; dtri->p3 = c;
		++di;
	}
	tris->size = (size_t)di;
}
void harness(void){ vec_Triangle *t; vec_int *m; vec_int *d; size_t *g; ApplyMapToTriangles_int_int(t,m,d,g);} 
