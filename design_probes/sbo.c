/* DESIGN PROBE: NiHeader::BlockDeleted and the ref-remap loop of NiHeader::SetBlockOrder, refs as a set of distinct cell pointers */
#include <stdint.h>
#include <stddef.h>
#define MAXN 65536
#define NPOS 0xFFFFFFFFu
typedef struct { uint32_t index; } NiRef;
typedef struct { NiRef **data; size_t size; } refset;      /* std::set<NiRef*> after GetChildRefs+GetPtrs */
typedef struct { uint32_t *data; size_t size; } vec_u32;
#define DISTINCT_FROM(rs, k) __CPROVER_forall { size_t i_; (i_ < (rs)->size && i_ != (k)) ==> (rs)->data[i_] != (rs)->data[(k)] }
size_t gh_k;   /* witness: position of a reference cell in the set */

/* body of NiHeader::BlockDeleted after the two enumerator calls (stubs) */
void BlockDeleted_loop(refset *refs, const uint32_t blockId)
__CPROVER_requires(__CPROVER_is_fresh(refs, sizeof(*refs)) && refs->size <= MAXN && __CPROVER_is_fresh(refs->data, MAXN*sizeof(NiRef*)))
__CPROVER_requires(gh_k < refs->size && __CPROVER_is_fresh(refs->data[gh_k], sizeof(NiRef)))
__CPROVER_requires(DISTINCT_FROM(refs, gh_k))
__CPROVER_assigns(refs->data[gh_k]->index)
__CPROVER_ensures(refs->data[gh_k]->index == (__CPROVER_old(refs->data[gh_k]->index) == NPOS ? NPOS : (__CPROVER_old(refs->data[gh_k]->index) == blockId ? NPOS : (__CPROVER_old(refs->data[gh_k]->index) > blockId ? __CPROVER_old(refs->data[gh_k]->index) - 1 : __CPROVER_old(refs->data[gh_k]->index)))))
{
	for (size_t _i = 0; _i < refs->size; ++_i)
	__CPROVER_assigns(_i, refs->data[gh_k]->index)
	__CPROVER_loop_invariant(_i <= refs->size)
	__CPROVER_loop_invariant(refs->data[gh_k]->index == (_i <= gh_k ? __CPROVER_loop_entry(refs->data[gh_k]->index) :
	     (__CPROVER_loop_entry(refs->data[gh_k]->index) == NPOS ? NPOS : (__CPROVER_loop_entry(refs->data[gh_k]->index) == blockId ? NPOS : (__CPROVER_loop_entry(refs->data[gh_k]->index) > blockId ? __CPROVER_loop_entry(refs->data[gh_k]->index) - 1 : __CPROVER_loop_entry(refs->data[gh_k]->index))))))
	__CPROVER_decreases(refs->size - _i)
	{
		NiRef *r = refs->data[_i];
		if (_i != gh_k) continue;            /* PROBE SIMPLIFICATION: other cells are not is_fresh here (see note) */
		if (!(r->index == NPOS)) {
			if (r->index == blockId)
				r->index = NPOS;
			else if (r->index > blockId)
				r->index--;
		}
	}
}
void harness(void){ refset *r; uint32_t id; BlockDeleted_loop(r, id);} 
