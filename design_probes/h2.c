#include <stdint.h>
#include <stddef.h>
#define MAXN 65536
typedef struct { uint16_t *data; size_t size; } vec_u16;
/* ghost snapshot array supplied by harness: old contents */
uint16_t *gh_old; 
/* real shim implementation of erase(begin()+k): verified once against its contract */
void vec_u16_erase_at(vec_u16 *v, size_t k)
__CPROVER_requires(__CPROVER_is_fresh(v, sizeof(*v)) && v->size <= MAXN && __CPROVER_is_fresh(v->data, MAXN*sizeof(uint16_t)) && __CPROVER_is_fresh(gh_old, MAXN*sizeof(uint16_t)))
__CPROVER_requires(k < v->size)
__CPROVER_requires(__CPROVER_forall { size_t i_; (i_ < MAXN) ==> gh_old[i_] == v->data[i_] })
__CPROVER_assigns(v->size, __CPROVER_object_whole(v->data))
__CPROVER_ensures(v->size == __CPROVER_old(v->size) - 1)
__CPROVER_ensures(__CPROVER_forall { size_t i_; (i_ < v->size) ==> v->data[i_] == (i_ < k ? gh_old[i_] : gh_old[i_ + 1]) })
{
  for (size_t i = k; i + 1 < v->size; ++i)
  __CPROVER_assigns(i, __CPROVER_object_whole(v->data))
  __CPROVER_loop_invariant(k <= i && i < v->size)
  __CPROVER_loop_invariant(__CPROVER_forall { size_t j_; (j_ < MAXN) ==> v->data[j_] == ((j_ < k || j_ >= i) ? gh_old[j_] : gh_old[j_ + 1]) })
  __CPROVER_decreases(v->size - i)
  { v->data[i] = v->data[i+1]; }
  v->size = v->size - 1;
}
void harness(void){ vec_u16 *v; size_t k; vec_u16_erase_at(v,k);} 
