#include <stdint.h>
#include <stdbool.h>
typedef struct { bool hasUnknown; uint32_t order[8]; uint32_t n; } NifFile;
void sort_impl(NifFile *f) __CPROVER_requires(__CPROVER_is_fresh(f, sizeof(*f))) __CPROVER_assigns(__CPROVER_object_whole(f)) ;
void PrettySortBlocks(NifFile *self)
__CPROVER_requires(__CPROVER_is_fresh(self, sizeof(*self)))
__CPROVER_assigns(!self->hasUnknown: __CPROVER_object_whole(self))
{
	if (0)
		return;
	sort_impl(self);
}
/* recursion */
uint32_t prune(uint32_t *cnt, uint32_t n, uint32_t root)
__CPROVER_requires(__CPROVER_is_fresh(cnt, sizeof(*cnt)) && n <= 100 && (root < n || n == 0))
__CPROVER_assigns(*cnt)
__CPROVER_ensures(__CPROVER_return_value <= n)
{
	if (n == 0) return 0;
	if (n > 1 && root != n - 1) { (*cnt)++; return prune(cnt, n - 1, root > n-1 ? root - 1 : root); }
	return n;
}
void h1(void){ NifFile *f; PrettySortBlocks(f);} 
void h2(void){ uint32_t *c; uint32_t n, r; prune(c,n,r);} 
