import json,sys,subprocess,collections
targets={
 'Geometry.cpp':['notifyVerticesDelete','CalcDataSizes','SetSegmentation','GetSegmentation','ReorderTriangles','SetVertexData','StripsToTris','Create'],
 'Skin.cpp':['notifyVerticesDelete','DeletePartitions','RemoveEmptyPartitions','ConvertStripsToTriangles','GenerateTrueTrianglesFromMappedTriangles','GenerateMappedTrianglesFromTrueTrianglesAndVertexMap','GenerateVertexMapFromTrueTriangles','PrepareTrueTriangles','PrepareVertexMapsAndTriangles','GenerateTrueTrianglesFromTriParts','GenerateTriPartsFromTrueTriangles','PrepareTriParts'],
 'BasicTypes.cpp':['DeleteBlock','AddBlock','ReplaceBlock','SetBlockOrder','IsBlockReferenced','GetBlockRefCount','AddOrFindBlockTypeId','GetBlockTypeStringById','GetBlockTypeIndex','GetBlockSize','AddOrFindStringId','UpdateMaxStringLength','UpdateHeaderStrings','FillStringRefs','BlockDeleted','DeleteBlockByType','FindStringId','NiUnknown::Sync','NiString::Write','NiString::Read','NiStringRef::Read','NiStringRef::Write'],
 'NifUtil.cpp':['trim_whitespace'],
 'NifFile.cpp':['PrettySortBlocks','SetShapeOrder','DeleteUnreferencedNodes','SetShapePartitions','RemoveInvalidTris','LinkGeomData'],
}
def load(s):
    dec=json.JSONDecoder(); i=0; docs=[]
    while i<len(s):
        while i<len(s) and s[i].isspace(): i+=1
        if i>=len(s): break
        o,j=dec.raw_decode(s,i); docs.append(o); i=j
    return docs
allk=collections.Counter(); perfn={}
for f,names in targets.items():
    for nm in names:
        out=subprocess.run(['clang++','-std=c++17','-fsyntax-only','-I/repo/include','-I/repo/external','-Xclang','-ast-dump=json','-Xclang','-ast-dump-filter='+nm,'/repo/src/'+f],capture_output=True,text=True).stdout
        for d in load(out):
            if d.get('kind') not in ('CXXMethodDecl','FunctionDecl'): continue
            body=[c for c in d.get('inner',[]) if c.get('kind')=='CompoundStmt']
            if not body: continue
            if d.get('loc',{}).get('includedFrom'): continue
            ks=collections.Counter()
            def walk(n):
                if 'kind' in n: ks[n['kind']]+=1
                for c in n.get('inner',[]): walk(c)
            walk(body[0])
            perfn[(f,nm,d['type']['qualType'][:60])]=ks
            allk.update(ks)
print(len(perfn),'function bodies')
print(sorted(allk.items(), key=lambda x:-x[1]))
rare={'LambdaExpr','CXXTryStmt','CXXNewExpr','CXXDeleteExpr','CXXDynamicCastExpr','CXXTemporaryObjectExpr','CXXBindTemporaryExpr','InitListExpr','CXXStdInitializerListExpr','CXXFunctionalCastExpr','DecompositionDecl','CXXDependentScopeMemberExpr'}
for k,ks in perfn.items():
    r=[x for x in ks if x in rare]
    if r: print(k, r)
