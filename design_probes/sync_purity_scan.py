import json,sys,bisect,os
def load(path):
    s=open(path).read(); dec=json.JSONDecoder(); i=0; docs=[]
    while i<len(s):
        while i<len(s) and s[i].isspace(): i+=1
        if i>=len(s): break
        o,j=dec.raw_decode(s,i); docs.append(o); i=j
    return docs
def has_this_member(n):
    if n.get('kind')=='MemberExpr':
        for c in n.get('inner',[]):
            if c.get('kind')=='CXXThisExpr': return n.get('name')
            r=has_this_member(c)
            if r: return r
        return None
    for c in n.get('inner',[]):
        r=has_this_member(c)
        if r: return r
    return None
OKCALLS={'resize','Sync','SyncData','SyncSize','SyncHalf','SyncString','SyncLine','SyncByteArray','SyncUDEC3','size','data','GetVersion','File','Stream','User','GetMode','empty','begin','end','GetHeader','GetStringById','GetIndex','get','IsOB','IsFO3','IsSK','IsSSE','IsFO4','IsFO76','IsSF','IsBethesda','operator[]','Read','Write','asRead','asWrite','length','NDS','cbegin','cend','back','front','GetVertexMainSize','HasVertices','IsFullPrecision','HasUVs','HasNormals','HasTangents','HasVertexColors','IsSkinned','HasEyeData','HasType','HasFlag'}
tot=0; mut=0; modeb=0
for f in sorted(os.listdir('.')):
    if not f.endswith('.json'): continue
    src=open('/repo/src/'+f.replace('.json','.cpp')).read()
    lines=[0]
    for i,ch in enumerate(src):
        if ch=='\n': lines.append(i+1)
    def line(off): return bisect.bisect_right(lines,off)
    for d in load(f):
        if d.get('kind')!='CXXMethodDecl' or d.get('name')!='Sync': continue
        body=[c for c in d.get('inner',[]) if c.get('kind')=='CompoundStmt']
        if not body: continue
        # only those defined in this cpp (loc has no 'includedFrom' and file is main) -> approximate via range.begin.offset within src and text startswith
        off=d.get('range',{}).get('begin',{}).get('offset')
        if d.get('loc',{}).get('includedFrom') or d.get('range',{}).get('begin',{}).get('includedFrom'): continue
        if 'file' in d.get('loc',{}) and not d['loc']['file'].endswith('.cpp'): continue
        tot+=1
        sites=[]
        def walk(n):
            k=n.get('kind')
            if k in ('BinaryOperator','CompoundAssignOperator') and n.get('opcode') in ('=','+=','-=','&=','|=','*=','/=','^=','<<=','>>='):
                m=has_this_member(n['inner'][0])
                if m: sites.append(('assign '+n['opcode']+' '+m, n['range']['begin'].get('offset')))
            if k=='UnaryOperator' and n.get('opcode') in ('++','--'):
                m=has_this_member(n['inner'][0])
                if m: sites.append(('incdec '+m, n['range']['begin'].get('offset')))
            if k=='CXXOperatorCallExpr':
                ins=n.get('inner',[])
                nm=None; x=ins[0]
                while x.get('kind')!='DeclRefExpr' and x.get('inner'): x=x['inner'][0]
                nm=x.get('referencedDecl',{}).get('name')
                if nm in ('operator=','operator+=','operator-='):
                    m=has_this_member(ins[1])
                    if m: sites.append(('opassign '+m, n['range']['begin'].get('offset')))
            if k=='CXXMemberCallExpr':
                me=n['inner'][0]
                nm=me.get('name')
                if nm=='GetMode' or nm in ('asRead','asWrite'): sites.append(('MODE '+nm, n['range']['begin'].get('offset')))
                elif nm not in OKCALLS:
                    m=has_this_member(me) or ('this' if any(c.get('kind')=='CXXThisExpr' for c in me.get('inner',[])) else None)
                    if m: sites.append(('call '+nm+' on '+str(m), n['range']['begin'].get('offset')))
            for c in n.get('inner',[]): walk(c)
        walk(body[0])
        if sites:
            cls=d.get('parentDeclContextId','')
            print(f.replace('.json','.cpp'), 'Sync@line', line(off) if off else '?')
            for s_,o in sites:
                print('     ', s_, 'line', line(o) if o is not None else '?')
                if s_.startswith('MODE'): modeb+=1
                else: mut+=1
print('Sync bodies defined in src/*.cpp:',tot,' mutation sites:',mut,' mode sites:',modeb)
