#!/usr/bin/env python3
# DESIGN PROBE (throw-away prototype, not the extractor): clang JSON AST -> C for the node kinds that occur in
# nifly::EraseVectorIndices.  Usage:
#   clang++ -std=c++17 -fsyntax-only -I/repo/include -I/repo/external -Xclang -ast-dump=json \
#           -Xclang -ast-dump-filter=EraseVectorIndices /repo/src/Geometry.cpp > ast.json
#   python3 ast2c_prototype.py ast.json 'void (std::vector<nifly::Vector3> &, const std::vector<unsigned short> &)' NAME
import json, sys, re
def load_docs(path):
    s=open(path).read(); dec=json.JSONDecoder(); i=0; docs=[]
    while i<len(s):
        while i<len(s) and s[i].isspace(): i+=1
        if i>=len(s): break
        o,j=dec.raw_decode(s,i); docs.append(o); i=j
    return docs
SC={'unsigned short':'uint16_t','unsigned long':'size_t','size_t':'size_t','int':'int','unsigned int':'uint32_t','long':'int64_t','int64_t':'int64_t','uint16_t':'uint16_t','uint32_t':'uint32_t','bool':'_Bool','unsigned char':'uint8_t'}
def ctype(qt, n=None):
    d = n['type'].get('desugaredQualType', qt) if n else qt
    for t in (qt, d):
        t=t.replace('const ','').strip()
        if t in SC: return SC[t]
        m=re.match(r'std::vector<(.*)>( &)?$', t)
        if m: return 'vec_'+re.sub(r'\W+','_',m.group(1).replace('nifly::','').replace('unsigned short','u16').replace('unsigned int','u32'))+(' *' if m.group(2) else '')
    raise SystemExit('EXTRACTION-BREAK: type '+qt+' / '+d)
class P:
    def __init__(s): s.refparams=set()
    def isvec(s,n): return 'std::vector<' in n['type'].get('desugaredQualType', n['type']['qualType'])
    def e(s,n):
        k=n['kind']; I=n.get('inner',[])
        if k in ('ImplicitCastExpr','ExprWithCleanups','MaterializeTemporaryExpr'):
            if k=='ImplicitCastExpr' and n['castKind']=='IntegralCast':
                return '((%s)%s)'%(ctype(n['type']['qualType'],n), s.e(I[0]))
            return s.e(I[0])
        if k=='ParenExpr': return '(%s)'%s.e(I[0])
        if k=='IntegerLiteral': return n['value']
        if k=='DeclRefExpr':
            nm=n['referencedDecl']['name']; return '(*%s)'%nm if nm in s.refparams else nm
        if k in ('BinaryOperator','CompoundAssignOperator'): return '(%s %s %s)'%(s.e(I[0]),n['opcode'],s.e(I[1]))
        if k=='UnaryOperator':
            return '(%s%s)'%((s.e(I[0]),n['opcode']) if n.get('isPostfix') else (n['opcode'],s.e(I[0])))
        if k=='CXXStaticCastExpr': return '((%s)%s)'%(ctype(n['type']['qualType'],n), s.e(I[0]))
        if k=='CXXMemberCallExpr':
            me=I[0]; obj=me['inner'][0]; m=me['name']; args=[s.e(a) for a in I[1:]]
            if s.isvec(obj):
                o=s.e(obj)
                if m=='size': return '%s.size'%o
                if m=='empty': return '(%s.size == 0)'%o
                if m=='resize' and len(args)==1: return 'VEC_RESIZE(%s, %s)'%(o,args[0])
            raise SystemExit('EXTRACTION-BREAK: member call '+m)
        if k=='CXXOperatorCallExpr':
            op=I[0]
            while op['kind']!='DeclRefExpr': op=op['inner'][0]
            opn=op['referencedDecl']['name']
            if opn=='operator[]' and s.isvec(I[1]): return '%s.data[%s]'%(s.e(I[1]), s.e(I[2]))
            if opn=='operator=': return '(%s = %s)'%(s.e(I[1]), s.e(I[2]))
            raise SystemExit('EXTRACTION-BREAK: operator '+opn)
        if k=='CallExpr':
            f=I[0]
            while f['kind']!='DeclRefExpr': f=f['inner'][0]
            if f['referencedDecl']['name']=='move': return s.e(I[1])
            raise SystemExit('EXTRACTION-BREAK: call '+f['referencedDecl']['name'])
        if k=='CXXConstructExpr' and len(I)==1: return s.e(I[0])
        raise SystemExit('EXTRACTION-BREAK: expr kind '+k)
    def st(s,n,ind):
        k=n['kind']; I=n.get('inner',[]); t='\t'*ind
        if k=='CompoundStmt': return t+'{\n'+''.join(s.st(c,ind+1) for c in I)+t+'}\n'
        if k=='IfStmt':
            r=t+'if (%s)\n'%s.e(I[0])+s.st(I[1],ind+1)
            if len(I)>2: r+=t+'else\n'+s.st(I[2],ind+1)
            return r
        if k=='ReturnStmt': return t+'return%s;\n'%((' '+s.e(I[0])) if I else '')
        if k=='DeclStmt':
            return ''.join(t+'%s %s%s;\n'%(ctype(v['type']['qualType'],v), v['name'], (' = '+s.e(v['inner'][0])) if v.get('inner') else '') for v in I)
        if k=='ForStmt':
            init,_,cond,inc,body=I
            ini = s.st(init,0).strip().rstrip(';') if init.get('kind') else ''
            return t+'for (%s; %s; %s)\n/* <loop contract spliced here by ordinal> */\n'%(ini, s.e(cond), s.e(inc))+s.st(body,ind)
        return t+s.e(n)+';\n'
docs=load_docs(sys.argv[1]); want=sys.argv[2]; cname=sys.argv[3]
fn=None
for d in docs:
    for c in d.get('inner',[]):
        if c.get('kind')=='FunctionDecl' and c['type']['qualType']==want: fn=c
if not fn: raise SystemExit('EXTRACTION-BREAK: no such instantiation '+want)
p=P(); params=[]
for c in fn['inner']:
    if c['kind']=='ParmVarDecl':
        ct=ctype(c['type']['qualType'],c)
        if ct.endswith('*'): p.refparams.add(c['name'])
        params.append(('const ' if 'const' in c['type']['qualType'] else '')+ct+' '+c['name'])
body=[c for c in fn['inner'] if c['kind']=='CompoundStmt'][0]
print('void %s(%s)\n/* <function contract spliced here> */\n'%(cname, ', '.join(params))+p.st(body,0))
