/* DESIGN PROBE (not part of the machinery): hand rendering of nifly::EraseVectorIndices<std::vector<E>,uint16_t>
   with the contract that closed under cvc5 (all obligations, capacity 65536, ~14 s).  Element = opaque token. */
#include <stdint.h>
#include <stddef.h>
#ifndef MAXN
#define MAXN 65536
#endif
typedef uint64_t elem_t;
typedef struct { uint16_t *data; size_t size; } vec_u16;
typedef struct { elem_t *data; size_t size; } vec_elem;
size_t gh_w, gh_p; elem_t gh_val;
#define SORTED(v) __CPROVER_forall { size_t i_; __CPROVER_forall { size_t j_; (i_ < j_ && j_ < (v)->size) ==> (v)->data[i_] < (v)->data[j_] } }
#define LB(v, p, x) ((p) <= (v)->size && ((p) == 0 || (v)->data[(p)-1] < (x)) && ((p) == (v)->size || (v)->data[(p)] >= (x)))
void EraseVectorIndices_elem_u16(vec_elem *v, const vec_u16 *indices)
__CPROVER_requires(__CPROVER_is_fresh(v, sizeof(*v)) && __CPROVER_is_fresh(indices, sizeof(*indices)))
__CPROVER_requires(v->size < MAXN && indices->size <= MAXN)
__CPROVER_requires(__CPROVER_is_fresh(v->data, MAXN * sizeof(elem_t)))
__CPROVER_requires(__CPROVER_is_fresh(indices->data, MAXN * sizeof(uint16_t)))
__CPROVER_requires(SORTED(indices))
__CPROVER_requires(gh_w < v->size && LB(indices, gh_p, gh_w) && (gh_p == indices->size || indices->data[gh_p] != gh_w))
__CPROVER_requires(gh_val == v->data[gh_w])
__CPROVER_assigns(v->size, __CPROVER_object_whole(v->data))
__CPROVER_ensures(v->size <= __CPROVER_old(v->size) && LB(indices, __CPROVER_old(v->size) - v->size, __CPROVER_old(v->size)))
__CPROVER_ensures(gh_p <= gh_w && gh_w - gh_p < v->size && v->data[gh_w - gh_p] == gh_val)
{
	if (indices->size == 0 || indices->data[0] >= v->size)
		return;

	size_t indi = 1;
	uint16_t di = indices->data[0];
	uint16_t si = (uint16_t)(di + 1);
	for (; si < v->size; ++si)
	__CPROVER_assigns(si, di, indi, __CPROVER_object_whole(v->data))
	__CPROVER_loop_invariant(1 <= indi && indi <= indices->size && di < si && si <= v->size && (size_t)di + indi == si)
	__CPROVER_loop_invariant(LB(indices, indi, si))
	__CPROVER_loop_invariant(gh_w >= si ==> v->data[gh_w] == gh_val)
	__CPROVER_loop_invariant(gh_w < si ==> (gh_p <= gh_w && gh_w - gh_p < di && v->data[gh_w - gh_p] == gh_val))
	__CPROVER_decreases(v->size - si)
	{
		if (indi < indices->size && si == indices->data[indi])
			++indi;
		else
			v->data[di++] = (v->data[si]);
	}

	v->size = di;
}
void harness(void) { vec_elem *v; vec_u16 *indices; EraseVectorIndices_elem_u16(v, indices); }
