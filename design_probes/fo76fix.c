#include <stdint.h>
#include <stddef.h>
#include <stdbool.h>
typedef struct { uint8_t buf[16]; size_t pos; size_t end; } tape;
typedef struct { bool reading; tape *t; uint32_t stream_ver; } NiStreamReversible;
static void TAPE_SYNC(NiStreamReversible *s, void *p, size_t n) {
  uint8_t *b = (uint8_t*)p;
  for (size_t i = 0; i < n; i++) {           /* n is a compile-time constant at every call: fully unwound */
    if (s->reading) { if (s->t->pos < s->t->end) b[i] = s->t->buf[s->t->pos]; s->t->pos++; }
    else { s->t->buf[s->t->pos++] = b[i]; if (s->t->end < s->t->pos) s->t->end = s->t->pos; }
  }
}
typedef struct { uint32_t bslspShaderType; } BSLSP;
/* AST fragment of BSLightingShaderProperty::Sync: the IfStmt that references bslspShaderType */
static void frag(BSLSP *self, NiStreamReversible *stream) {
	if (stream->stream_ver > 139) {
		uint32_t wireType = self->bslspShaderType;
		if (!stream->reading && wireType > 3)
			wireType -= 1;
		TAPE_SYNC(stream, &wireType, sizeof(wireType));
		if (stream->reading) {
			if (wireType >= 3)
				wireType += 1;
			self->bslspShaderType = wireType;
		}
	}
}
uint32_t nondet_u32(void);
void lemma(void) {
  uint32_t ver = nondet_u32();
  tape t0; t0.pos = 0; t0.end = 4;                     /* arbitrary 4 wire bytes */
  NiStreamReversible r = { true, &t0, ver }, w;
  BSLSP b; b.bslspShaderType = nondet_u32();
  frag(&b, &r);                                        /* R  */
  uint32_t s1 = b.bslspShaderType;
  tape t1; t1.pos = 0; t1.end = 0; w.reading = false; w.t = &t1; w.stream_ver = ver;
  frag(&b, &w);                                        /* W  */
  __CPROVER_assert(b.bslspShaderType == s1, "C02: write mode leaves the logical state unchanged");
  tape t1r = t1; t1r.pos = 0; r.t = &t1r; BSLSP b2; b2.bslspShaderType = nondet_u32();
  frag(&b2, &r);                                       /* R  */
  tape t2; t2.pos = 0; t2.end = 0; w.t = &t2;
  frag(&b2, &w);                                       /* W  */
  __CPROVER_assert(t2.end == t1.end, "C01: same length");
  __CPROVER_assert(ver <= 139 || (t2.buf[0]==t1.buf[0] && t2.buf[1]==t1.buf[1] && t2.buf[2]==t1.buf[2] && t2.buf[3]==t1.buf[3]), "C01: W(R(W(R(t)))) == W(R(t))");
}
