#include <stdint.h>
#include <stddef.h>
#define MAXN 65536
typedef struct { uint16_t *data; size_t size; } vec_u16;
typedef struct { uint64_t *data; size_t size; } vec_elem;
#define SORTED(v) __CPROVER_forall { size_t i_; __CPROVER_forall { size_t j_; (i_ < j_ && j_ < (v)->size) ==> (v)->data[i_] < (v)->data[j_] } }
/* LBN(v,p,x): p = number of entries of sorted v that are < x  */
#define LB(v, p, x) ((p) <= (v)->size && ((p) == 0 || (v)->data[(p)-1] < (x)) && ((p) == (v)->size || (v)->data[(p)] >= (x)))
size_t gh_w;   /* witness: old position in v */
size_t gh_p;   /* witness: number of inserted slots at or before the new position of gh_w: new = gh_w + gh_p, with indices[gh_p-1] < new... */
/* resize-grow shim */
void vec_elem_resize(vec_elem *v, size_t n)
__CPROVER_requires(n <= MAXN && v->size <= MAXN)
__CPROVER_assigns(v->size)
__CPROVER_ensures(v->size == n)
;
/* C rendering of InsertVectorIndices<std::vector<E>, uint16_t> */
void InsertVectorIndices_elem_u16(vec_elem *v, const vec_u16 *indices)
__CPROVER_requires(__CPROVER_is_fresh(v, sizeof(*v)) && __CPROVER_is_fresh(indices, sizeof(*indices)))
__CPROVER_requires(v->size + indices->size < MAXN && v->size >= 1)
__CPROVER_requires(__CPROVER_is_fresh(v->data, MAXN * 8) && __CPROVER_is_fresh(indices->data, MAXN * 2))
__CPROVER_requires(SORTED(indices))
/* witness: new position n = gh_w + gh_p where gh_p = #indices < n and n not an inserted slot */
__CPROVER_requires(gh_w < v->size && LB(indices, gh_p, gh_w + gh_p) && (gh_p == indices->size || indices->data[gh_p] != gh_w + gh_p))
__CPROVER_assigns(v->size, __CPROVER_object_whole(v->data))
__CPROVER_ensures((__CPROVER_old(indices->size) == 0 || __CPROVER_old(indices->data[indices->size - 1]) >= __CPROVER_old(v->size) + indices->size) ? v->size == __CPROVER_old(v->size) : (v->size == __CPROVER_old(v->size) + indices->size && v->data[gh_w + gh_p] == __CPROVER_old(v->data[gh_w])))
{
	if (indices->size == 0 || indices->data[indices->size - 1] >= v->size + indices->size)
		return;

	int64_t indi = (int64_t)(indices->size - 1);
	uint16_t di = (uint16_t)(v->size + indices->size - 1);
	uint16_t si = (uint16_t)(v->size - 1);
	vec_elem_resize(v, (size_t)(di + 1));

	while (1)
	__CPROVER_assigns(indi, di, si, __CPROVER_object_whole(v->data))
	__CPROVER_loop_invariant(-1 <= indi && indi < (int64_t)indices->size && (int64_t)di == (int64_t)si + indi + 1 && (size_t)di < v->size)
	__CPROVER_loop_invariant(indi < 0 || indices->data[indi] <= di)
	__CPROVER_loop_invariant(gh_w <= si ==> v->data[gh_w] == __CPROVER_loop_entry(v->data[gh_w]))
	__CPROVER_loop_invariant(gh_w > si ==> v->data[gh_w + gh_p] == __CPROVER_loop_entry(v->data[gh_w]))
	__CPROVER_loop_invariant(gh_w > si ==> gh_w + gh_p > di)
	__CPROVER_decreases(di)
	{
		while (indi >= 0 && di == indices->data[indi])
		__CPROVER_assigns(indi, di)
		__CPROVER_loop_invariant(-1 <= indi && indi < (int64_t)indices->size && (int64_t)di == (int64_t)si + indi + 1)
		__CPROVER_loop_invariant(indi < 0 || indices->data[indi] <= di)
		__CPROVER_loop_invariant(gh_w > si ==> gh_w + gh_p > di)
		__CPROVER_decreases(indi + 1)
		{ --di, --indi; }

		if (indi < 0)
			break;

		v->data[di--] = (v->data[si--]);
	}
}
void harness(void){ vec_elem *v; vec_u16 *i; InsertVectorIndices_elem_u16(v,i);} 
