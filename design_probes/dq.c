#include <stdint.h>
#include <stddef.h>
#define MAXN 65536
#define NPOS 0xFFFFFFFFu
#define V20_2_0_5 0x14020005u
typedef struct { uint16_t *data; size_t size; } vec_u16;
typedef struct { uint32_t *data; size_t size; } vec_u32;
typedef struct { uint64_t *data; size_t size; } vec_tok;
typedef struct {
  uint32_t version_file; vec_tok *blocks; uint32_t numBlocks; uint16_t numBlockTypes;
  vec_tok blockTypes; vec_u16 blockTypeIndices; vec_u32 blockSizes;
} NiHeader;
#define ERASE_CONTRACT \
__CPROVER_requires(k < v->size && v->size <= MAXN && gh_j < v->size) \
__CPROVER_assigns(v->size, __CPROVER_object_whole(v->data)) \
__CPROVER_ensures(v->size == __CPROVER_old(v->size) - 1) \
__CPROVER_ensures(gh_j != k ==> v->data[gh_j < k ? gh_j : gh_j - 1] == __CPROVER_old(v->data[gh_j]))
void vec_u16_erase_at(vec_u16 *v, size_t k, size_t gh_j) ERASE_CONTRACT ;
void vec_u32_erase_at(vec_u32 *v, size_t k, size_t gh_j) ERASE_CONTRACT ;
void vec_tok_erase_at(vec_tok *v, size_t k, size_t gh_j) ERASE_CONTRACT ;
void NiHeader_BlockDeleted(uint64_t blk, uint32_t blockId) __CPROVER_requires(1) __CPROVER_ensures(1) __CPROVER_assigns() ;

size_t gh_j;            /* witness: a surviving block (old index) */
size_t gh_t;            /* witness: a type index (old) other than a removed one */
#define SIZES(h) ((h)->numBlocks == (h)->blocks->size && (h)->numBlocks == (h)->blockTypeIndices.size && (h)->numBlocks < MAXN \
  && ((h)->version_file >= V20_2_0_5 ==> (h)->blockSizes.size == (h)->numBlocks) && (h)->numBlockTypes == (h)->blockTypes.size)
#define NEWPOS(j, id) ((j) < (id) ? (j) : (j) - 1)

void NiHeader_DeleteBlock(NiHeader *self, const uint32_t blockId)
__CPROVER_requires(__CPROVER_is_fresh(self, sizeof(*self)) && __CPROVER_is_fresh(self->blocks, sizeof(vec_tok)))
__CPROVER_requires(__CPROVER_is_fresh(self->blocks->data, MAXN*8) && __CPROVER_is_fresh(self->blockTypes.data, MAXN*8))
__CPROVER_requires(__CPROVER_is_fresh(self->blockTypeIndices.data, MAXN*2) && __CPROVER_is_fresh(self->blockSizes.data, MAXN*4))
__CPROVER_requires(SIZES(self))
__CPROVER_requires(blockId == NPOS || (blockId < self->numBlocks && self->blockTypeIndices.data[blockId] < self->numBlockTypes))
__CPROVER_requires(gh_j < self->numBlocks && gh_j != blockId && self->blockTypeIndices.data[gh_j] < self->numBlockTypes)
__CPROVER_assigns(self->numBlocks, self->numBlockTypes, self->blockTypes.size, __CPROVER_object_whole(self->blockTypes.data),
   self->blockTypeIndices.size, __CPROVER_object_whole(self->blockTypeIndices.data), self->blockSizes.size, __CPROVER_object_whole(self->blockSizes.data),
   self->blocks->size, __CPROVER_object_whole(self->blocks->data))
__CPROVER_ensures(SIZES(self))
__CPROVER_ensures(blockId == NPOS ==> self->numBlocks == __CPROVER_old(self->numBlocks))
__CPROVER_ensures(blockId != NPOS ==> (self->numBlocks == __CPROVER_old(self->numBlocks) - 1
     && self->blockTypeIndices.data[NEWPOS(gh_j, blockId)] < self->numBlockTypes
     && self->blocks->data[NEWPOS(gh_j, blockId)] == __CPROVER_old(self->blocks->data[gh_j])
     && self->blockTypes.data[self->blockTypeIndices.data[NEWPOS(gh_j, blockId)]] == __CPROVER_old(self->blockTypes.data[self->blockTypeIndices.data[gh_j]])
     && (self->version_file >= V20_2_0_5 ==> self->blockSizes.data[NEWPOS(gh_j, blockId)] == __CPROVER_old(self->blockSizes.data[gh_j]))))
{
	if (blockId == NPOS)
		return;

	uint16_t blockTypeId = self->blockTypeIndices.data[blockId];
	int blockTypeRefCount = 0;
	for (size_t _i0 = 0; _i0 < self->blockTypeIndices.size; ++_i0)
	__CPROVER_assigns(_i0, blockTypeRefCount)
	__CPROVER_loop_invariant(_i0 <= self->blockTypeIndices.size && 0 <= blockTypeRefCount && (size_t)blockTypeRefCount <= _i0)
	__CPROVER_loop_invariant(blockId < _i0 ==> blockTypeRefCount >= 1)
	__CPROVER_loop_invariant((gh_j < _i0 && self->blockTypeIndices.data[gh_j] == blockTypeId) ==> blockTypeRefCount >= 1)
	__CPROVER_loop_invariant((gh_j < _i0 && blockId < _i0 && self->blockTypeIndices.data[gh_j] == blockTypeId) ==> blockTypeRefCount >= 2)
	__CPROVER_decreases(self->blockTypeIndices.size - _i0)
	{
		uint16_t blockTypeIndice = self->blockTypeIndices.data[_i0];
		if (blockTypeIndice == blockTypeId)
			blockTypeRefCount++;
	}

	if (blockTypeRefCount < 2) {
		vec_tok_erase_at(&self->blockTypes, blockTypeId, self->blockTypeIndices.data[gh_j]);
		self->numBlockTypes--;
		for (size_t _i1 = 0; _i1 < self->blockTypeIndices.size; ++_i1)
		__CPROVER_assigns(_i1, __CPROVER_object_whole(self->blockTypeIndices.data))
		__CPROVER_loop_invariant(_i1 <= self->blockTypeIndices.size)
		__CPROVER_loop_invariant(self->blockTypeIndices.data[gh_j] == ((gh_j < _i1 && __CPROVER_loop_entry(self->blockTypeIndices.data[gh_j]) > blockTypeId) ? __CPROVER_loop_entry(self->blockTypeIndices.data[gh_j]) - 1 : __CPROVER_loop_entry(self->blockTypeIndices.data[gh_j])))
		__CPROVER_decreases(self->blockTypeIndices.size - _i1)
		{
			uint16_t *blockTypeIndice = &self->blockTypeIndices.data[_i1];
			if (*blockTypeIndice > blockTypeId)
				(*blockTypeIndice)--;
		}
	}

	vec_u16_erase_at(&self->blockTypeIndices, blockId, gh_j);

	if (self->version_file >= V20_2_0_5)
		vec_u32_erase_at(&self->blockSizes, blockId, gh_j);

	vec_tok_erase_at(self->blocks, blockId, gh_j);
	self->numBlocks--;

	for (size_t _i2 = 0; _i2 < self->blocks->size; ++_i2)
	__CPROVER_assigns(_i2)
	__CPROVER_loop_invariant(_i2 <= self->blocks->size)
	__CPROVER_decreases(self->blocks->size - _i2)
	{
		NiHeader_BlockDeleted(self->blocks->data[_i2], blockId);
	}
}
void harness(void){ NiHeader *h; uint32_t id; NiHeader_DeleteBlock(h, id);} 
