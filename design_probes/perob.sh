#!/bin/bash
# usage: perob.sh file.gb [flags...]  -> lists obligations not SUCCESS when run one by one
gb=$1; shift
cbmc --show-properties "$@" $gb 2>/dev/null | grep -E "^Property" | sed -E 's/Property (.*):/\1/' | grep -v "^__CPROVER" > props_$$.lst
cat props_$$.lst | xargs -P 16 -I{} sh -c 'r=$(timeout 120 cbmc --cvc5 '"$*"' --property {} '"$gb"' 2>&1 | grep -E "^VERIFICATION" ); echo "{} $r"' > per_$$.txt
echo "total $(wc -l < props_$$.lst)"; awk '{print $2,$3}' per_$$.txt | sort | uniq -c
grep -v SUCCESSFUL per_$$.txt | awk '{print $1}' | sort > bad_$$.txt
for p in $(cat bad_$$.txt); do cbmc --show-properties "$@" $gb 2>/dev/null | grep -A3 "^Property $p:" | tr '\n' ' ' | cut -c1-260; echo; done
rm -f props_$$.lst per_$$.txt bad_$$.txt
