#include <stdint.h>
#include <stddef.h>
#define MAXN 65536
#define K 3
typedef struct { uint16_t *data; size_t size; } vec_u16;
typedef struct { vec_u16 vertexMap; uint16_t numVertices; } Part;
typedef struct { Part *data; size_t size; } vec_Part;
size_t gh_p, gh_i;
/* every vertexMap entry incremented by 1 (toy inner loop with contract), outer loop over partitions unwound */
void bump_all(vec_Part *parts)
__CPROVER_requires(__CPROVER_is_fresh(parts, sizeof(*parts)) && parts->size <= K && __CPROVER_is_fresh(parts->data, K*sizeof(Part)))
__CPROVER_requires(parts->data[0].vertexMap.size <= MAXN && __CPROVER_is_fresh(parts->data[0].vertexMap.data, MAXN*2))
__CPROVER_requires(parts->data[1].vertexMap.size <= MAXN && __CPROVER_is_fresh(parts->data[1].vertexMap.data, MAXN*2))
__CPROVER_requires(parts->data[2].vertexMap.size <= MAXN && __CPROVER_is_fresh(parts->data[2].vertexMap.data, MAXN*2))
__CPROVER_requires(gh_p < parts->size && gh_i < parts->data[gh_p].vertexMap.size && parts->data[gh_p].vertexMap.data[gh_i] == 7)
__CPROVER_assigns(__CPROVER_object_whole(parts->data[0].vertexMap.data), __CPROVER_object_whole(parts->data[1].vertexMap.data), __CPROVER_object_whole(parts->data[2].vertexMap.data))
__CPROVER_ensures(parts->data[gh_p].vertexMap.data[gh_i] == 8)
{
  for (size_t p = 0; p < parts->size; ++p)
  __CPROVER_assigns(p, __CPROVER_object_whole(parts->data[0].vertexMap.data), __CPROVER_object_whole(parts->data[1].vertexMap.data), __CPROVER_object_whole(parts->data[2].vertexMap.data))
  __CPROVER_loop_invariant(p <= parts->size)
  __CPROVER_loop_invariant(parts->data[gh_p].vertexMap.data[gh_i] == (gh_p < p ? 8 : 7))
  __CPROVER_decreases(parts->size - p)
  {
    vec_u16 *vm = &parts->data[p].vertexMap;
    for (size_t i = 0; i < vm->size; ++i)
    __CPROVER_assigns(i, __CPROVER_object_whole(vm->data))
    __CPROVER_loop_invariant(i <= vm->size)
    __CPROVER_loop_invariant(p == gh_p ==> (gh_i < i ? vm->data[gh_i] == 8 : vm->data[gh_i] == 7))
    __CPROVER_loop_invariant(p != gh_p ==> parts->data[gh_p].vertexMap.data[gh_i] == (gh_p < p ? 8 : 7))
    __CPROVER_decreases(vm->size - i)
    { vm->data[i] = (uint16_t)(vm->data[i] + 1); }
  }
}
void harness(void){ vec_Part *p; bump_all(p);} 
