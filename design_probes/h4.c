#include <stdint.h>
#include <stddef.h>
#define MAXN 65536
typedef struct { uint16_t *data; size_t size; } vec_u16;
size_t gh_j; uint16_t gh_v;
void erase_keep_bound(vec_u16 *v, size_t k, uint16_t n)
__CPROVER_requires(__CPROVER_is_fresh(v, sizeof(*v)) && v->size <= MAXN && __CPROVER_is_fresh(v->data, MAXN*sizeof(uint16_t)))
__CPROVER_requires(k < v->size)
__CPROVER_requires(__CPROVER_forall { size_t i_; (i_ < v->size) ==> v->data[i_] < n })
__CPROVER_requires(gh_j < v->size && gh_j != k && gh_v == v->data[gh_j])
__CPROVER_assigns(v->size, __CPROVER_object_whole(v->data))
__CPROVER_ensures(v->size == __CPROVER_old(v->size) - 1)
__CPROVER_ensures(__CPROVER_forall { size_t i_; (i_ < v->size) ==> v->data[i_] < n })
__CPROVER_ensures(v->data[gh_j < k ? gh_j : gh_j - 1] == gh_v)
{
  for (size_t i = k; i + 1 < v->size; ++i)
  __CPROVER_assigns(i, __CPROVER_object_whole(v->data))
  __CPROVER_loop_invariant(k <= i && i < v->size)
  __CPROVER_loop_invariant(__CPROVER_forall { size_t j_; (j_ < v->size) ==> v->data[j_] < n })
  __CPROVER_loop_invariant(gh_j < k ==> v->data[gh_j] == gh_v)
  __CPROVER_loop_invariant(gh_j > k ==> (gh_j <= i ? v->data[gh_j - 1] == gh_v : v->data[gh_j] == gh_v))
  __CPROVER_decreases(v->size - i)
  { v->data[i] = v->data[i+1]; }
  v->size = v->size - 1;
}
void harness(void){ vec_u16 *v; size_t k; uint16_t n; erase_keep_bound(v,k,n);} 
