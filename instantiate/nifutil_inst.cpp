// Explicit instantiations of NifUtil.hpp templates that no nifly translation unit instantiates.
// This file contains no logic: it only makes clang produce the AST of the REAL template bodies from /repo/include.
#include "NifUtil.hpp"
#include <cstdint>
namespace nifly {
template void InsertVectorIndices<std::vector<Vector3>, uint16_t>(std::vector<Vector3>&, const std::vector<uint16_t>&);
template std::vector<int> GenerateIndexExpandMap<uint16_t, uint16_t>(const std::vector<uint16_t>&, const uint16_t);
}
