// native demonstration: a creator string of length 255 (mod 256) is written with the length prefix 0 followed by 256 bytes,
// so everything behind it in the header is read from the wrong offset
#include "NifFile.hpp"
#include <sstream>
#include <cstdio>
using namespace nifly;
int main(int argc, char** argv) {
	int bad = 0;
	for (size_t len : {10u, 254u, 255u, 256u, 511u}) {
		NifFile nif; if (nif.Load(argv[1]) != 0) return 2;
		std::string t0 = nif.GetHeader().GetBlockTypeStringById(0);
		nif.GetHeader().SetCreatorInfo(std::string(len, 'a'));
		std::ostringstream out(std::ios::binary);
		NifSaveOptions opt; opt.optimize = false; opt.sortBlocks = false;
		nif.Save(out, opt);
		std::istringstream in(out.str(), std::ios::binary); NifFile back; int rc = back.Load(in);
		std::string t1 = rc == 0 ? back.GetHeader().GetBlockTypeStringById(0) : std::string("<load failed>");
		bool ok = rc == 0 && t1 == t0 && back.GetShapeNames() == nif.GetShapeNames();
		printf("creator length %zu: reload rc=%d, type of block 0 '%s' (was '%s'), %zu shapes%s\n", len, rc, t1.c_str(), t0.c_str(), back.GetShapeNames().size(), ok ? "" : "   <-- header not readable");
		if (!ok) bad++;
	}
	return bad ? 1 : 0;
}
