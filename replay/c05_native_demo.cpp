// C05 native demonstration: references that are serialised but not enumerated go stale when a block in front of their target is deleted.
#include "NifFile.hpp"
#include "bhk.hpp"
#include "Animation.hpp"
#include <cstdio>
using namespace nifly;
int main() {
	int bad = 0;
	{	// 1. NiBlendInterpolator::interpItems[].interpolatorRef
		NifFile nif; nif.Create(NiVersion::getSSE());
		auto& hdr = nif.GetHeader();
		uint32_t filler = hdr.AddBlock(std::make_unique<NiFloatInterpolator>());
		uint32_t target = hdr.AddBlock(std::make_unique<NiFloatInterpolator>());
		auto blend = std::make_unique<NiBlendFloatInterpolator>();
		blend->flags = InterpBlendFlags(0);
		InterpBlendItem item; item.interpolatorRef.index = target;
		blend->interpItems.push_back(item); blend->arraySize = 1;
		auto blendp = blend.get();
		hdr.AddBlock(std::move(blend));
		NiObject* tgt = hdr.GetBlock<NiObject>(target);
		hdr.DeleteBlock(filler);
		uint32_t now = hdr.GetBlockID(tgt);
		printf("1. NiBlendInterpolator item ref: target moved to %u, item still says %u\n", now, blendp->interpItems[0].interpolatorRef.index);
		if (blendp->interpItems[0].interpolatorRef.index != now) bad |= 1;
	}
	{	// 3. bhkMalleableConstraint::subConstraint.entityRefs
		NifFile nif; nif.Create(NiVersion::getSSE());
		auto& hdr = nif.GetHeader();
		uint32_t filler = hdr.AddBlock(std::make_unique<NiFloatInterpolator>());
		uint32_t body = hdr.AddBlock(std::make_unique<bhkRigidBody>());
		auto mc = std::make_unique<bhkMalleableConstraint>();
		mc->subConstraint.entityRefs.SetKeepEmptyRefs(); mc->subConstraint.entityRefs.SetSize(2);
		mc->subConstraint.entityRefs.SetBlockRef(0, body); mc->subConstraint.entityRefs.SetBlockRef(1, body);
		auto mcp = mc.get();
		hdr.AddBlock(std::move(mc));
		NiObject* tgt = hdr.GetBlock<NiObject>(body);
		hdr.DeleteBlock(filler);
		uint32_t now = hdr.GetBlockID(tgt);
		printf("3. bhkMalleableConstraint sub-constraint entity: body moved to %u, constraint still says %u\n", now, mcp->subConstraint.entityRefs.GetBlockRef(0));
		if (mcp->subConstraint.entityRefs.GetBlockRef(0) != now) bad |= 4;
	}
	{	// 4. bhkRagdollTemplateData::constraints[].entityRefs
		NifFile nif; nif.Create(NiVersion::getSSE());
		auto& hdr = nif.GetHeader();
		uint32_t filler = hdr.AddBlock(std::make_unique<NiFloatInterpolator>());
		uint32_t body = hdr.AddBlock(std::make_unique<bhkRigidBody>());
		auto td = std::make_unique<bhkRagdollTemplateData>();
		ConstraintData cd; cd.entityRefs.SetKeepEmptyRefs(); cd.entityRefs.SetSize(2); cd.entityRefs.SetBlockRef(0, body); cd.entityRefs.SetBlockRef(1, body);
		td->constraints.push_back(cd);
		auto tdp = td.get();
		hdr.AddBlock(std::move(td));
		NiObject* tgt = hdr.GetBlock<NiObject>(body);
		hdr.DeleteBlock(filler);
		uint32_t now = hdr.GetBlockID(tgt);
		printf("4. bhkRagdollTemplateData constraint entity: body moved to %u, template still says %u\n", now, tdp->constraints[0].entityRefs.GetBlockRef(0));
		if (tdp->constraints[0].entityRefs.GetBlockRef(0) != now) bad |= 8;
	}
	printf("stale-reference mask: %d\n", bad);
	return bad ? 1 : 0;
}
