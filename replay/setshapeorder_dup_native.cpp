// native demonstration: NifFile::SetShapeOrder with a duplicate name in the order
#include "NifFile.hpp"
#include <cstdio>
using namespace nifly;
static void show(NifFile& nif, const char* when) {
	auto root = nif.GetRootNode();
	std::vector<uint32_t> idx; root->childRefs.GetIndices(idx);
	printf("%s: root has %zu children:", when, idx.size());
	for (auto i : idx) { auto o = nif.GetHeader().GetBlock<NiAVObject>(i); printf(" %u(%s)", i, o ? o->name.get().c_str() : "?"); }
	printf("\n");
}
int main(int argc, char** argv) {
	NifFile nif;
	if (nif.Load(argv[1]) != 0) return 2;
	auto names = nif.GetShapeNames();
	if (names.size() < 2) return 2;
	show(nif, "before");
	std::vector<std::string> order(names.size(), names[0]);     // the first shape named for every position
	nif.SetShapeOrder(order);
	show(nif, "after ");
	auto root = nif.GetRootNode();
	std::vector<uint32_t> idx; root->childRefs.GetIndices(idx);
	for (size_t a = 0; a < idx.size(); a++) for (size_t b = a + 1; b < idx.size(); b++) if (idx[a] == idx[b] && idx[a] != 0xFFFFFFFFu) { printf("child %u is listed twice\n", idx[a]); return 1; }
	return 0;
}
