// Native replay for the C18 family: drives the REAL templates of include/NifUtil.hpp (from the tree under check) on the
// counterexample sizes reported by the verifier -- and on every input of that small scope -- and compares with the naive
// definitions of the property statement.  Built with -fsanitize=address,undefined.  Exit 1 + "FAILING INPUT ..." on the first
// disagreement or sanitizer report, exit 0 if the real code agrees with the naive definition on the whole scope.
//
// usage: c18_native <function> <scope>      function in {erase, collapse, applymap, strips, insert, expand, maxindex}
#include "NifUtil.hpp"
#include <cstdio>
#include <cstdlib>
#include <cstring>
#include <string>
#include <vector>
using namespace nifly;

static std::string show(const std::vector<uint16_t>& v) { std::string s = "{"; for (auto x : v) s += std::to_string(x) + ","; return s + "}"; }
static std::string show(const std::vector<int>& v) { std::string s = "{"; for (auto x : v) s += std::to_string(x) + ","; return s + "}"; }

// all strictly ascending lists over [0, maxv)
static void sorted_lists(int maxv, std::vector<std::vector<uint16_t>>& out) {
	for (int m = 0; m < (1 << maxv); m++) {
		std::vector<uint16_t> l;
		for (int b = 0; b < maxv; b++) if (m & (1 << b)) l.push_back((uint16_t) b);
		out.push_back(l);
	}
}

static int fail(const char* fn, const std::string& what) { printf("FAILING INPUT %s: %s\n", fn, what.c_str()); return 1; }

static int t_erase(int n) {
	std::vector<std::vector<uint16_t>> lists; sorted_lists(n + 2, lists);
	for (int sz = 0; sz <= n; sz++) for (auto& idx : lists) {
		std::vector<int> v(sz); for (int i = 0; i < sz; i++) v[i] = 100 + i;
		std::vector<int> naive; for (int i = 0; i < sz; i++) { bool del = false; for (auto d : idx) if (d == i) del = true; if (!del) naive.push_back(100 + i); }
		std::vector<int> got = v; EraseVectorIndices(got, idx);
		if (got != naive) return fail("EraseVectorIndices", "v.size=" + std::to_string(sz) + " indices=" + show(idx) + " got=" + show(got) + " naive=" + show(naive));
	}
	return 0;
}
static int t_collapse(int n) {
	std::vector<std::vector<uint16_t>> lists; sorted_lists(n + 1, lists);
	for (uint16_t sz = 0; sz <= n; sz++) for (auto& idx : lists) {
		std::vector<int> naive(sz); int d = 0;
		for (int i = 0; i < sz; i++) { bool del = false; for (auto x : idx) if (x == i) del = true; naive[i] = del ? -1 : d++; }
		auto got = GenerateIndexCollapseMap(idx, sz);
		if (got != naive) return fail("GenerateIndexCollapseMap", "mapSize=" + std::to_string(sz) + " indices=" + show(idx) + " got=" + show(got) + " naive=" + show(naive));
	}
	return 0;
}
static int t_applymap(int n) {
	// maps over {-1,0,1} of length 0..2, triangle lists of length <= 2 with corners in 0..2
	for (int ml = 0; ml <= 2; ml++) for (int mc = 0; mc < 9; mc++) {
		std::vector<int> map; int c = mc; for (int i = 0; i < ml; i++) { map.push_back(c % 3 - 1); c /= 3; }
		for (int tl = 0; tl <= 2; tl++) for (int tc = 0; tc < 729; tc++) {
			std::vector<Triangle> tris; int x = tc;
			for (int i = 0; i < tl; i++) { Triangle t; t.p1 = x % 3; x /= 3; t.p2 = x % 3; x /= 3; t.p3 = x % 3; x /= 3; tris.push_back(t); }
			std::vector<Triangle> naive; std::vector<int> ndel;
			for (int i = 0; i < tl; i++) { auto& t = tris[i]; auto ok = [&](uint16_t p) { return p < map.size() && map[p] >= 0; };
				if (ok(t.p1) && ok(t.p2) && ok(t.p3)) naive.push_back(Triangle(map[t.p1], map[t.p2], map[t.p3])); else ndel.push_back(i); }
			std::vector<Triangle> got = tris; std::vector<int> del; ApplyMapToTriangles(got, map, &del);
			bool same = got.size() == naive.size() && del == ndel;
			for (size_t i = 0; same && i < got.size(); i++) same = got[i].p1 == naive[i].p1 && got[i].p2 == naive[i].p2 && got[i].p3 == naive[i].p3;
			if (!same) return fail("ApplyMapToTriangles", "map=" + show(map) + " ntris=" + std::to_string(tl) + " code=" + std::to_string(tc));
			if (tl == 0) break;
		}
		if (ml == 0) break;
	}
	return 0;
}
static int t_strips(int n) {
	// one or two strips over {0..2} of length <= n
	int total = 1; for (int i = 0; i < n; i++) total *= 3;
	for (int len = 0; len <= n; len++) for (int code = 0; code < total; code++) {
		std::vector<uint16_t> s; int x = code; for (int i = 0; i < len; i++) { s.push_back(x % 3); x /= 3; }
		std::vector<std::vector<uint16_t>> strips{s};
		std::vector<Triangle> naive;
		for (int i = 2; i < len; i++) { uint16_t a = s[i - 2], b = s[i - 1], c = s[i]; if (a != b && b != c && c != a) naive.push_back((i & 1) == 0 ? Triangle(a, b, c) : Triangle(a, c, b)); }
		auto got = GenerateTrianglesFromStrips(strips);
		bool same = got.size() == naive.size();
		for (size_t i = 0; same && i < got.size(); i++) same = got[i].p1 == naive[i].p1 && got[i].p2 == naive[i].p2 && got[i].p3 == naive[i].p3;
		if (!same) return fail("GenerateTrianglesFromStrips", "strip=" + show(s) + " got " + std::to_string(got.size()) + " triangles, naive " + std::to_string(naive.size()) + " (or a winding differs)");
	}
	return 0;
}
static int t_maxindex(int n) {
	for (int code = 0; code < 4096; code++) {
		std::vector<Triangle> tris; int x = code; uint16_t mx = 0;
		for (int i = 0; i < 2; i++) { Triangle t; t.p1 = x % 4; x /= 4; t.p2 = x % 4; x /= 4; t.p3 = x % 4; x /= 4; tris.push_back(t); mx = std::max(mx, std::max(t.p1, std::max(t.p2, t.p3))); }
		if (CalcMaxTriangleIndex(tris) != mx) return fail("CalcMaxTriangleIndex", "code=" + std::to_string(code));
	}
	return 0;
}
static int t_insert(int n) {
	std::vector<std::vector<uint16_t>> lists; sorted_lists(n + 2, lists);
	for (int sz = 0; sz <= n; sz++) for (auto& idx : lists) {
		if (idx.empty() || idx.back() >= sz + idx.size()) continue;
		std::vector<int> v(sz); for (int i = 0; i < sz; i++) v[i] = 100 + i;
		std::vector<int> got = v; InsertVectorIndices(got, idx);
		std::vector<int> back = got; EraseVectorIndices(back, idx);     // erase then re-insert restores positions
		if (back != v) return fail("InsertVectorIndices", "v.size=" + std::to_string(sz) + " indices=" + show(idx));
	}
	return 0;
}
static int t_expand(int n) {
	std::vector<std::vector<uint16_t>> lists; sorted_lists(n + 1, lists);
	for (uint16_t sz = 0; sz <= n; sz++) for (auto& idx : lists) {
		auto got = GenerateIndexExpandMap(idx, sz);
		std::vector<int> naive; int d = 0; size_t k = 0;
		for (int i = 0; i < sz; i++, d++) { while (k < idx.size() && idx[k] == d) { d++; k++; } naive.push_back(d); }
		if (got != naive) return fail("GenerateIndexExpandMap", "mapSize=" + std::to_string(sz) + " indices=" + show(idx));
	}
	return 0;
}
int main(int argc, char** argv) {
	if (argc < 3) return 2;
	std::string f = argv[1]; int n = atoi(argv[2]);
	int rc = f == "erase" ? t_erase(n) : f == "collapse" ? t_collapse(n) : f == "applymap" ? t_applymap(n) : f == "strips" ? t_strips(n) : f == "maxindex" ? t_maxindex(n)
	       : f == "insert" ? t_insert(n) : f == "expand" ? t_expand(n) : 2;
	if (rc == 0) printf("AGREES %s scope %d\n", f.c_str(), n);
	return rc;
}
