#include "NifFile.hpp"
#include <sstream>
#include <iostream>
#include <csignal>
#include <unistd.h>
#include <sys/wait.h>
#include <fstream>
using namespace nifly;
static std::string hex(const std::string& s, size_t n=24){ char b[4]; std::string r; for(size_t i=0;i<s.size()&&i<n;i++){ snprintf(b,4,"%02x ",(unsigned char)s[i]); r+=b;} return r; }
int main(int argc, char** argv) {
  // (a) FO76 shader type
  {
    NifFile nif; nif.Create(NiVersion::getFO76());
    auto& hdr = nif.GetHeader();
    auto sh = std::make_unique<BSLightingShaderProperty>(hdr.GetVersion());
    auto shp = sh.get();
    shp->bslspShaderType = 5;
    hdr.AddBlock(std::move(sh));
    std::cout << "(a) before: type=" << shp->bslspShaderType << "\n";
    for (int k=0;k<3;k++){ std::ostringstream os; NiOStream s(&os,&hdr); shp->Put(s); std::cout << "    put#"<<k<<" bytes: "<<hex(os.str(),40)<<" | type now="<<shp->bslspShaderType<<"\n"; }
  }
  // (b) OB tangents
  {
    NifFile nif; int rc = nif.Load(std::string(argv[1])+"/TestNifFile_Skinned_OB.nif");
    std::cout << "(b) load rc="<<rc<<"\n";
    for (auto s : nif.GetShapes()) std::cout << "    shape "<<s->name.get()<<" HasTangents="<<s->HasTangents()<<"\n";
    NifSaveOptions o; o.optimize=false; o.sortBlocks=false;
    for (int k=0;k<3;k++){ std::ostringstream os; nif.Save(os,o); std::cout<<"    save#"<<k<<" size="<<os.str().size()<<" blocks="<<nif.GetHeader().GetNumBlocks(); for (auto s : nif.GetShapes()) std::cout<<" T="<<s->HasTangents(); std::cout<<"\n"; }
  }
  // (c) truncation of SE skinned file: fork per prefix
  {
    std::ifstream f(std::string(argv[1])+"/TestNifFile_Skinned_SE.nif", std::ios::binary); std::string data((std::istreambuf_iterator<char>(f)),{});
    std::cout<<"(c) file size "<<data.size()<<"\n"; int crashes=0; 
    for (size_t n=0;n<data.size();n++){
      pid_t p=fork();
      if(!p){ std::istringstream is(data.substr(0,n)); NifFile nif; nif.Load(is); _exit(0);} 
      int st; waitpid(p,&st,0); if(WIFSIGNALED(st)){ if(crashes<5) std::cout<<"    prefix "<<n<<" -> signal "<<WTERMSIG(st)<<"\n"; crashes++; }
    }
    std::cout<<"    crashing prefixes: "<<crashes<<"\n";
  }
  // (d) shift
  { VertexDesc d; d.SetAttributeOffset(VA_EYEDATA, 8); d.SetAttributeOffset(VA_LANDDATA, 4); std::cout<<"(d) done\n"; }
}
