// native demonstration: NifFile::SetShapeOrder on a model whose root node is not block 0 (blocks rotated by one first)
#include "NifFile.hpp"
#include <cstdio>
#include <algorithm>
using namespace nifly;
int main(int argc, char** argv) {
	NifFile nif;
	if (nif.Load(argv[1]) != 0) { printf("load failed\n"); return 2; }
	auto& hdr = nif.GetHeader();
	uint32_t n = hdr.GetNumBlocks();
	if (argc > 2) {   // rotate: block i -> i+1 (last -> 0): the root node moves from slot 0 to slot 1
		std::vector<uint32_t> order(n);
		for (uint32_t i = 0; i < n; i++) order[i] = (i + 1) % n;
		hdr.SetBlockOrder(order);
	}
	auto root = nif.GetRootNode();
	printf("blocks=%u rootId=%u\n", n, root ? nif.GetBlockID(root) : 0xffffffffu);
	auto names = nif.GetShapeNames();
	printf("shapes=%zu\n", names.size());
	nif.SetShapeOrder(names);      // the SAME order: nothing should change
	uint32_t nonnull = 0;
	for (uint32_t i = 0; i < hdr.GetNumBlocks(); i++) if (hdr.GetBlock<NiObject>(i)) nonnull++;
	printf("after: blocks=%u non-empty slots=%u\n", hdr.GetNumBlocks(), nonnull);
	return nonnull == n ? 0 : 1;
}
