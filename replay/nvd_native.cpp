// Bounded native stand-in for vertex deletion (C09): drives the REAL library built from the tree under check (ASan/UBSan) on every
// sorted, non-empty index subset of a 6-vertex scope, for each kind of data that follows a vertex deletion, and compares with an
// oracle written from the property statement:
//   exactly the other vertices remain, in order, attributes unchanged; for triangle lists exactly the triangles that used no deleted
//   vertex remain, re-indexed, in order; every remaining index (strips, skin weights, partition vertex maps and triangles) refers to
//   an existing vertex; per-vertex arrays and counters agree.
// usage: nvd_native <which>   which in {skindata, partition, trishapedata, bstrishape, strips, all}
// exit 1 + "FAILING INPUT ..." on the first disagreement; sanitizer reports also end non-zero.
#include "NifFile.hpp"
#include "Skin.hpp"
#include <cstdio>
#include <string>
#include <vector>
using namespace nifly;

static const int N = 6;
static std::string show(const std::vector<uint16_t>& d) { std::string s = "{"; for (auto x : d) s += std::to_string(x) + " "; return s + "}"; }
static int fail(const char* what, int model, const std::vector<uint16_t>& del, const std::string& why) {
	printf("FAILING INPUT %s: model %d, delete %s: %s\n", what, model, show(del).c_str(), why.c_str());
	return 1;
}
static std::vector<int> collapse(const std::vector<uint16_t>& del, int n) {
	std::vector<int> m(n); int k = 0; size_t j = 0;
	for (int i = 0; i < n; i++) { if (j < del.size() && del[j] == i) { m[i] = -1; j++; } else m[i] = k++; }
	return m;
}
static std::vector<Triangle> modelTris(int model) {
	std::vector<Triangle> t;
	t.push_back(Triangle(0, 1, 2)); t.push_back(Triangle(2, 3, 4)); t.push_back(Triangle(3, 4, 5));
	if (model & 1) t.push_back(Triangle(5, 0, 3));
	if (model & 2) t.insert(t.begin(), Triangle(1, 4, 5));
	return t;
}
static std::vector<Triangle> wantTris(const std::vector<Triangle>& t, const std::vector<int>& m) {
	std::vector<Triangle> w;
	for (auto& x : t) if (m[x.p1] != -1 && m[x.p2] != -1 && m[x.p3] != -1) w.push_back(Triangle((uint16_t) m[x.p1], (uint16_t) m[x.p2], (uint16_t) m[x.p3]));
	return w;
}
static bool sameTris(const std::vector<Triangle>& a, const std::vector<Triangle>& b) {
	if (a.size() != b.size()) return false;
	for (size_t i = 0; i < a.size(); i++) if (a[i].p1 != b[i].p1 || a[i].p2 != b[i].p2 || a[i].p3 != b[i].p3) return false;
	return true;
}

int main(int argc, char** argv) {
	std::string which = argc > 1 ? argv[1] : "all";
	NiVersion sk = NiVersion::getSK(); NiVersion sse = NiVersion::getSSE();
	for (int model = 0; model < 4; model++)
	for (int mask = 1; mask < (1 << N); mask++) {
		std::vector<uint16_t> del; for (int i = 0; i < N; i++) if (mask & (1 << i)) del.push_back((uint16_t) i);
		std::vector<int> m = collapse(del, N);
		int left = N - (int) del.size();
		std::vector<Vector3> verts(N), norms(N); std::vector<Vector2> uvs(N);
		for (int i = 0; i < N; i++) { verts[i] = Vector3(10.0f + i, 20.0f + i, 30.0f + i); norms[i] = Vector3(0, 0, 1); uvs[i] = Vector2(0.125f * i, 0.5f); }
		std::vector<Triangle> tris = modelTris(model);
		if (which == "skindata" || which == "all") {
			NiSkinData sd; sd.numBones = 2; sd.hasVertWeights = 1; sd.bones.resize(2);
			for (int b = 0; b < 2; b++) {
				for (int i = 0; i < N; i++) if (((model + b + i) % 3) != 0 || b == 0) sd.bones[b].vertexWeights.push_back(SkinWeight((uint16_t) ((model & 1) ? N - 1 - i : i), 0.25f + 0.125f * i + b));
				sd.bones[b].numVertices = (uint16_t) sd.bones[b].vertexWeights.size();
			}
			auto before = sd.bones;
			sd.notifyVerticesDelete(del);
			for (int b = 0; b < 2; b++) {
				std::vector<SkinWeight> want; for (auto& w : before[b].vertexWeights) if (m[w.index] != -1) want.push_back(SkinWeight((uint16_t) m[w.index], w.weight));
				auto& got = sd.bones[b].vertexWeights;
				if (got.size() != want.size()) return fail("NiSkinData::notifyVerticesDelete", model, del, "bone " + std::to_string(b) + " keeps " + std::to_string(got.size()) + " weights, " + std::to_string(want.size()) + " refer to surviving vertices");
				if (sd.bones[b].numVertices != got.size()) return fail("NiSkinData::notifyVerticesDelete", model, del, "bone counter and weight list disagree");
				for (size_t i = 0; i < got.size(); i++) {
					if (got[i].index >= left) return fail("NiSkinData::notifyVerticesDelete", model, del, "weight refers to vertex " + std::to_string(got[i].index) + " of " + std::to_string(left));
					if (got[i].index != want[i].index || got[i].weight != want[i].weight) return fail("NiSkinData::notifyVerticesDelete", model, del, "bone " + std::to_string(b) + " weight " + std::to_string(i) + " is (" + std::to_string(got[i].index) + ", " + std::to_string(got[i].weight) + "), expected (" + std::to_string(want[i].index) + ", " + std::to_string(want[i].weight) + ")");
				}
			}
		}
		if (which == "partition" || which == "all") {
			NiSkinPartition sp; sp.numPartitions = 2; sp.partitions.resize(2); sp.bMappedIndices = true;
			std::vector<std::vector<uint16_t>> vmap = {{0, 1, 2, 3, 4}, {5, 3, 4, 1}};
			if (model & 1) vmap[0] = {4, 3, 2, 1, 0};
			std::vector<std::vector<Triangle>> mt = {{Triangle(0, 1, 2), Triangle(2, 3, 4), Triangle(0, 2, 4)}, {Triangle(0, 1, 2), Triangle(1, 2, 3)}};
			for (int p = 0; p < 2; p++) {
				auto& pb = sp.partitions[p];
				pb.hasVertexMap = true; pb.vertexMap = vmap[p]; pb.numVertices = (uint16_t) vmap[p].size();
				pb.hasFaces = true; pb.triangles = mt[p]; pb.numTriangles = (uint16_t) mt[p].size();
				pb.hasVertexWeights = (model & 2) != 0; pb.hasBoneIndices = (model & 2) != 0;
				if (pb.hasVertexWeights) { pb.vertexWeights.resize(vmap[p].size()); pb.boneIndices.resize(vmap[p].size()); for (size_t i = 0; i < vmap[p].size(); i++) { pb.vertexWeights[i].w1 = 1.0f + vmap[p][i]; pb.boneIndices[i].i1 = (uint8_t) (40 + vmap[p][i]); } }
			}
			sp.notifyVerticesDelete(del);
			if (sp.partitions.size() != 2) return fail("NiSkinPartition::notifyVerticesDelete", model, del, "partition count changed");
			for (int p = 0; p < 2; p++) {
				auto& pb = sp.partitions[p];
				std::vector<uint16_t> wantMap; std::vector<int> pos(vmap[p].size(), -1); std::vector<uint16_t> oldOf;
				for (size_t i = 0; i < vmap[p].size(); i++) if (m[vmap[p][i]] != -1) { pos[i] = (int) wantMap.size(); wantMap.push_back((uint16_t) m[vmap[p][i]]); oldOf.push_back(vmap[p][i]); }
				if (pb.vertexMap != wantMap) return fail("NiSkinPartition::notifyVerticesDelete", model, del, "partition " + std::to_string(p) + " vertex map is " + show(pb.vertexMap) + ", expected " + show(wantMap));
				if (pb.numVertices != pb.vertexMap.size()) return fail("NiSkinPartition::notifyVerticesDelete", model, del, "vertex counter and vertex map disagree");
				for (auto v : pb.vertexMap) if (v >= left) return fail("NiSkinPartition::notifyVerticesDelete", model, del, "vertex map refers to vertex " + std::to_string(v) + " of " + std::to_string(left));
				std::vector<Triangle> want; for (auto& t : mt[p]) if (pos[t.p1] != -1 && pos[t.p2] != -1 && pos[t.p3] != -1) want.push_back(Triangle((uint16_t) pos[t.p1], (uint16_t) pos[t.p2], (uint16_t) pos[t.p3]));
				if (!sameTris(pb.triangles, want)) return fail("NiSkinPartition::notifyVerticesDelete", model, del, "partition " + std::to_string(p) + " keeps " + std::to_string(pb.triangles.size()) + " triangles, expected " + std::to_string(want.size()) + " (or wrong indices/order)");
				if (pb.numTriangles != pb.triangles.size()) return fail("NiSkinPartition::notifyVerticesDelete", model, del, "triangle counter and triangle list disagree");
				for (auto& t : pb.triangles) if (t.p1 >= pb.vertexMap.size() || t.p2 >= pb.vertexMap.size() || t.p3 >= pb.vertexMap.size()) return fail("NiSkinPartition::notifyVerticesDelete", model, del, "triangle refers past the vertex map");
				if (pb.hasVertexWeights) {
					if (pb.vertexWeights.size() != wantMap.size() || pb.boneIndices.size() != wantMap.size()) return fail("NiSkinPartition::notifyVerticesDelete", model, del, "weights / bone indices do not keep the vertex count");
					for (size_t i = 0; i < wantMap.size(); i++) if (pb.vertexWeights[i].w1 != 1.0f + oldOf[i] || pb.boneIndices[i].i1 != (uint8_t) (40 + oldOf[i])) return fail("NiSkinPartition::notifyVerticesDelete", model, del, "per-vertex weight data moved to another vertex");
				}
			}
		}
		if (which == "trishapedata" || which == "all") {
			NiTriShapeData d; d.Create(sk, &verts, &tris, &uvs, &norms);
			d.notifyVerticesDelete(del);
			if (d.GetNumVertices() != left || (int) d.vertices.size() != left) return fail("NiTriShapeData::notifyVerticesDelete", model, del, "vertex count " + std::to_string(d.GetNumVertices()) + " / array " + std::to_string(d.vertices.size()) + ", expected " + std::to_string(left));
			if (d.HasNormals() && (int) d.normals.size() != left) return fail("NiTriShapeData::notifyVerticesDelete", model, del, "normals do not keep the vertex count");
			if (!d.uvSets.empty() && (int) d.uvSets[0].size() != left) return fail("NiTriShapeData::notifyVerticesDelete", model, del, "UVs do not keep the vertex count");
			for (int i = 0, k = 0; i < N; i++) if (m[i] != -1) { if (d.vertices[k].x != verts[i].x || d.vertices[k].y != verts[i].y || (!d.uvSets.empty() && d.uvSets[0][k].u != uvs[i].u)) return fail("NiTriShapeData::notifyVerticesDelete", model, del, "vertex " + std::to_string(k) + " is not old vertex " + std::to_string(i)); k++; }
			std::vector<Triangle> got; d.GetTriangles(got);
			if (!sameTris(got, wantTris(tris, m))) return fail("NiTriShapeData::notifyVerticesDelete", model, del, "triangles: " + std::to_string(got.size()) + " kept, expected " + std::to_string(wantTris(tris, m).size()) + " (or wrong indices/order)");
			if (d.GetNumTriangles() != got.size()) return fail("NiTriShapeData::notifyVerticesDelete", model, del, "triangle counter and list disagree");
		}
		if (which == "bstrishape" || which == "all") {
			BSTriShape s; s.Create(sse, &verts, &tris, &uvs, &norms);
			s.notifyVerticesDelete(del);
			if (s.GetNumVertices() != left || (int) s.vertData.size() != left) return fail("BSTriShape::notifyVerticesDelete", model, del, "vertex count " + std::to_string(s.GetNumVertices()) + " / array " + std::to_string(s.vertData.size()) + ", expected " + std::to_string(left));
			for (int i = 0, k = 0; i < N; i++) if (m[i] != -1) { if (s.vertData[k].vert.x != verts[i].x || s.vertData[k].uv.u != uvs[i].u) return fail("BSTriShape::notifyVerticesDelete", model, del, "vertex " + std::to_string(k) + " is not old vertex " + std::to_string(i)); k++; }
			std::vector<Triangle> got; s.GetTriangles(got);
			if (!sameTris(got, wantTris(tris, m))) return fail("BSTriShape::notifyVerticesDelete", model, del, "triangles: " + std::to_string(got.size()) + " kept, expected " + std::to_string(wantTris(tris, m).size()) + " (or wrong indices/order)");
			if (s.GetNumTriangles() != got.size()) return fail("BSTriShape::notifyVerticesDelete", model, del, "triangle counter and list disagree");
		}
		if (which == "strips" || which == "all") {
			NiTriStripsData d; d.Create(sk, &verts, nullptr, &uvs, &norms);
			d.stripsInfo.points = {{0, 1, 2, 3, 4, 5}, {5, 3, 1, 0}};
			if (model & 1) d.stripsInfo.points.push_back({2, 2, 4});
			d.stripsInfo.stripLengths.clear(); for (auto& p : d.stripsInfo.points) { uint16_t l_ = (uint16_t) p.size(); d.stripsInfo.stripLengths.push_back(l_); }
			d.notifyVerticesDelete(del);
			if (d.GetNumVertices() != left || (int) d.vertices.size() != left) return fail("NiTriStripsData::notifyVerticesDelete", model, del, "vertex count");
			if (d.stripsInfo.stripLengths.size() != d.stripsInfo.points.size()) return fail("NiTriStripsData::notifyVerticesDelete", model, del, "strip count");
			for (size_t i = 0; i < d.stripsInfo.points.size(); i++) {
				if (d.stripsInfo.stripLengths[(uint16_t) i] != d.stripsInfo.points[i].size()) return fail("NiTriStripsData::notifyVerticesDelete", model, del, "strip length counter and strip disagree");
				for (auto v : d.stripsInfo.points[i]) if (v >= left) return fail("NiTriStripsData::notifyVerticesDelete", model, del, "strip refers to vertex " + std::to_string(v) + " of " + std::to_string(left));
			}
		}
	}
	printf("AGREES %s\n", which.c_str());
	return 0;
}
