// Native demo of the defect behind `fixed: property=C04 ... SortGraph shape reorder` (known_findings.txt): SetShapeOrder with an order
// that names a shape which is not a child of the root (and a name that matches nothing, so that the id count equals the root's
// shape count).  Before the repair SortGraph filled the slots of the ids it could not find with 0: the root node listed block 0 --
// itself -- as its own child.   build: g++ -std=c++17 -I/repo/include -I/repo/external this.cpp <libnifly.a>
// exit 1 when the root's child set changes.
#include "NifFile.hpp"
#include <cstdio>
#include <set>
using namespace nifly;
int main() {
	NifFile nif; nif.Create(NiVersion::getSSE());
	auto root = nif.GetRootNode();
	auto n = std::make_unique<NiNode>(); n->name.get() = "N";
	uint32_t nid = nif.GetHeader().AddBlock(std::move(n)); root->childRefs.AddBlockRef(nid);
	std::vector<Vector3> v = {Vector3(0, 0, 0), Vector3(1, 0, 0), Vector3(0, 1, 0)}; std::vector<Triangle> t = {Triangle(0, 1, 2)};
	nif.CreateShapeFromData("A", &v, &t, nullptr, nullptr);
	nif.CreateShapeFromData("C", &v, &t, nullptr, nullptr);
	auto B = nif.CreateShapeFromData("B", &v, &t, nullptr, nullptr);
	uint32_t bid = nif.GetBlockID(B);
	std::vector<uint32_t> idx; root->childRefs.GetIndices(idx);
	for (size_t i = 0; i < idx.size(); i++) if (idx[i] == bid) root->childRefs.RemoveBlockRef((uint32_t) i);
	nif.GetHeader().GetBlock<NiNode>(nid)->childRefs.AddBlockRef(bid);   // B is a child of N, not of the root
	auto names = [&](const char* w) { std::multiset<std::string> s; printf("%s root children:", w); std::vector<uint32_t> ix; nif.GetRootNode()->childRefs.GetIndices(ix);
		for (auto i : ix) { auto o = nif.GetHeader().GetBlock<NiAVObject>(i); s.insert(o ? o->name.get() : "?"); printf(" %u:%s", i, o ? o->name.get().c_str() : "?"); } printf("\n"); return s; };
	auto before = names("before");
	nif.SetShapeOrder({"B", "A", "zzz"});
	auto after = names("after ");
	if (before != after) { printf("FAILING HISTORY: the root's children changed\n"); return 1; }
	printf("AGREES\n");
	return 0;
}
