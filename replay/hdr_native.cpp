// Native replay for the NiHeader block-table family (C06 / C15 / C04 / C07 / C03): small-scope search against the REAL library
// built from the tree under check (ASan/UBSan), with an oracle written from the property statement:
//   after an operation every reference designates the same logical block it designated before (or is empty exactly when that
//   block was deleted), no two slots hold the same block, the per-block type names describe the blocks, unused type names are gone.
// usage: hdr_native <op>   op in {delete, deletebytype, replace, reorder, prune, lookup, all}
// exit 1 + "FAILING HISTORY ..." on the first disagreement; sanitizer reports also end non-zero.
#include "NifFile.hpp"
#include "Skin.hpp"
#include <cstdio>
#include <map>
#include <set>
#include <string>
#include <vector>
using namespace nifly;

struct Snap {
	std::vector<NiObject*> blocks;
	std::map<NiObject*, std::string> name;  // never dereference a block pointer taken before the operation: it may be gone
	std::map<NiRef*, NiObject*> target;   // reference cell -> designated block (null = empty / dangling)
};

static void cells(NiObject* b, std::set<NiRef*>& out) { b->GetChildRefs(out); b->GetPtrs(out); }

static Snap snap(NiHeader& hdr) {
	Snap s;
	for (uint32_t i = 0; i < hdr.GetNumBlocks(); i++) { s.blocks.push_back(hdr.GetBlock<NiObject>(i)); s.name[s.blocks.back()] = s.blocks.back()->GetBlockName(); }
	for (auto b : s.blocks) { std::set<NiRef*> c; cells(b, c); for (auto r : c) s.target[r] = (r->IsEmpty() || r->index >= s.blocks.size()) ? nullptr : s.blocks[r->index]; }
	return s;
}

static std::string check(NiHeader& hdr, const Snap& before, const std::set<NiObject*>& deleted) {
	std::vector<NiObject*> now; std::set<NiObject*> seen;
	for (uint32_t i = 0; i < hdr.GetNumBlocks(); i++) {
		auto b = hdr.GetBlock<NiObject>(i);
		if (!b) return "slot " + std::to_string(i) + " is empty";
		if (!seen.insert(b).second) return "block listed twice";
		now.push_back(b);
		if (hdr.GetBlockTypeStringById(i) != b->GetBlockName()) return "slot " + std::to_string(i) + ": header says '" + hdr.GetBlockTypeStringById(i) + "' but the block is a " + b->GetBlockName();
	}
	for (auto b : now) {
		std::set<NiRef*> c; cells(b, c);
		for (auto r : c) {
			auto it = before.target.find(r);
			if (it == before.target.end()) continue;       // cell of a new block
			NiObject* want = deleted.count(it->second) ? nullptr : it->second;
			NiObject* got = (r->IsEmpty() || r->index >= now.size()) ? nullptr : now[r->index];
			if (it->second == nullptr && !r->IsEmpty() && r->index >= before.blocks.size()) continue;   // was out of range before: left alone
			if (want != got) return std::string("a reference of a ") + b->GetBlockName() + " designated " + (it->second ? (before.name.count(it->second) ? before.name.at(it->second) : std::string("a new block")) : std::string("nothing")) + " and now designates " + (got ? got->GetBlockName() : "nothing") + " (index " + std::to_string(r->index) + ")";
		}
	}
	// every type name used
	std::set<std::string> used; for (auto b : now) used.insert(b->GetBlockName());
	for (auto b : now) (void) b;
	return "";
}

// a small model: root node, nodes with child references, a skin instance with pointers, loose blocks; layout chosen by `code`
static void build(NifFile& nif, int code) {
	nif.Create(NiVersion::getSSE());
	auto& hdr = nif.GetHeader();
	int n = 3 + code % 3;
	std::vector<uint32_t> ids;
	for (int i = 0; i < n; i++) {
		if ((code >> (i + 2)) & 1) ids.push_back(hdr.AddBlock(std::make_unique<NiFloatInterpolator>()));
		else ids.push_back(hdr.AddBlock(std::make_unique<NiNode>()));
	}
	auto skin = std::make_unique<NiSkinInstance>();
	skin->targetRef.index = ids[code % ids.size()];
	skin->boneRefs.AddBlockRef(ids[(code / 3) % ids.size()]);
	skin->boneRefs.AddBlockRef(ids[(code / 5) % ids.size()]);
	hdr.AddBlock(std::move(skin));
	for (size_t i = 0; i < ids.size(); i++) {
		auto node = hdr.GetBlock<NiNode>(ids[i]);
		if (node) { node->childRefs.AddBlockRef(ids[(i + 1 + code) % ids.size()]); if (code & 1) node->childRefs.AddBlockRef(hdr.GetNumBlocks() - 1); }
	}
	auto root = nif.GetRootNode(); if (root) root->childRefs.AddBlockRef(ids[0]);
	// corrupted references (C15): a child reference and a pointer beyond the block table -- every operation must leave them alone
	if (code & 32) { auto node = hdr.GetBlock<NiNode>(ids[0]); if (node) node->childRefs.AddBlockRef(hdr.GetNumBlocks() + 5); }
	if (code & 64) { auto sk = hdr.GetBlock<NiSkinInstance>(hdr.GetNumBlocks() - 1); if (sk) sk->boneRefs.AddBlockRef(hdr.GetNumBlocks() + 7); }
}

static int fail(const char* op, int code, const std::string& arg, const std::string& why) { printf("FAILING HISTORY %s: model %d, %s: %s\n", op, code, arg.c_str(), why.c_str()); return 1; }

int main(int argc, char** argv) {
	std::string op = argc > 1 ? argv[1] : "all";
	for (int code = 0; code < 128; code++) {
		if (op == "delete" || op == "all") {
			NifFile probe; build(probe, code); uint32_t n = probe.GetHeader().GetNumBlocks();
			for (uint32_t id = 0; id < n; id++) {
				NifFile nif; build(nif, code); auto& hdr = nif.GetHeader(); Snap s = snap(hdr);
				std::set<NiObject*> del{s.blocks[id]}; hdr.DeleteBlock(id);
				auto why = check(hdr, s, del); if (!why.empty()) return fail("DeleteBlock", code, "id " + std::to_string(id), why);
				if (hdr.GetNumBlocks() != n - 1) return fail("DeleteBlock", code, "id " + std::to_string(id), "block count");
			}
		}
		if (op == "deletebytype" || op == "all") {
			for (const char* ty : {"NiNode", "NiFloatInterpolator", "NiSkinInstance"}) {
				NifFile nif; build(nif, code); auto& hdr = nif.GetHeader();
				// disturb the first-appearance order of the type table
				if (code & 2) { auto nb = std::make_unique<NiFloatInterpolator>(); hdr.ReplaceBlock(1, std::move(nb)); }
				Snap s = snap(hdr); std::set<NiObject*> del; for (auto b : s.blocks) if (s.name[b] == ty) del.insert(b);
				hdr.DeleteBlockByType(ty);
				auto why = check(hdr, s, del); if (!why.empty()) return fail("DeleteBlockByType", code, ty, why);
				if (hdr.GetNumBlocks() != s.blocks.size() - del.size()) return fail("DeleteBlockByType", code, ty, "deleted " + std::to_string(s.blocks.size() - hdr.GetNumBlocks()) + " blocks, " + std::to_string(del.size()) + " have that type");
			}
		}
		if (op == "replace" || op == "all") {
			NifFile probe; build(probe, code); uint32_t n = probe.GetHeader().GetNumBlocks();
			for (uint32_t id = 0; id < n; id++) for (int same = 0; same < 2; same++) {
				NifFile nif; build(nif, code); auto& hdr = nif.GetHeader(); Snap s = snap(hdr);
				std::unique_ptr<NiObject> nb; if (same) nb.reset(s.blocks[id]->Clone().release()); else nb = std::make_unique<NiStringExtraData>();
				NiObject* nbp = nb.get(); NiObject* old = s.blocks[id];
				s.blocks[id] = nbp; for (auto& kv : s.target) if (kv.second == old) kv.second = nbp;
				std::set<NiRef*> oc; cells(old, oc); for (auto r : oc) s.target.erase(r);
				hdr.ReplaceBlock(id, std::move(nb));
				auto why = check(hdr, s, {}); if (!why.empty()) return fail("ReplaceBlock", code, "id " + std::to_string(id) + (same ? " with a clone" : " with another type"), why);
			}
		}
		if (op == "reorder" || op == "all") {
			NifFile nif; build(nif, code); auto& hdr = nif.GetHeader(); Snap s = snap(hdr); uint32_t n = hdr.GetNumBlocks();
			std::vector<uint32_t> order(n); for (uint32_t i = 0; i < n; i++) order[i] = (i * 3 + code) % n;   // a bijection when gcd(3, n) == 1
			std::set<uint32_t> u(order.begin(), order.end()); if (u.size() == n) {
				hdr.SetBlockOrder(order);
				auto why = check(hdr, s, {}); if (!why.empty()) return fail("SetBlockOrder", code, "rotation", why);
			}
		}
		if (op == "prune" || op == "all") {
			NifFile nif; build(nif, code); auto& hdr = nif.GetHeader();
			// put a loose block in front of the root
			uint32_t n = hdr.GetNumBlocks(); std::vector<uint32_t> order(n); for (uint32_t i = 0; i < n; i++) order[i] = (i + 1) % n; hdr.SetBlockOrder(order);
			NiObject* root = nif.GetRootNode(); Snap s = snap(hdr);
			uint32_t rootId = hdr.GetBlockID(root); if (rootId == NIF_NPOS) continue;
			hdr.DeleteUnreferencedBlocks<NiObject>(rootId);
			std::set<NiObject*> del; std::set<NiObject*> now; for (uint32_t i = 0; i < hdr.GetNumBlocks(); i++) now.insert(hdr.GetBlock<NiObject>(i));
			for (auto b : s.blocks) if (!now.count(b)) del.insert(b);
			if (!now.count(root)) return fail("DeleteUnreferencedBlocks", code, "root at " + std::to_string(rootId), "the root node was pruned");
			auto why = check(hdr, s, del); if (!why.empty()) return fail("DeleteUnreferencedBlocks", code, "root at " + std::to_string(rootId), why);
		}
		if (op == "lookup" || op == "all") {
			NifFile nif; build(nif, code); auto& hdr = nif.GetHeader();
			for (uint32_t id : {0u, 1u, hdr.GetNumBlocks() - 1, hdr.GetNumBlocks(), hdr.GetNumBlocks() + 7, 0x7FFFFFF0u, 0xFFFFFFFEu, 0xFFFFFFFFu}) {
				auto b = hdr.GetBlock<NiNode>(id); auto name = hdr.GetBlockTypeStringById(id); (void) hdr.GetBlockTypeIndex(id); (void) hdr.GetBlockSize(id);
				if (id >= hdr.GetNumBlocks() && (b || !name.empty())) return fail("GetBlock", code, "id " + std::to_string(id), "non-empty answer for an id outside the table");
				if (b && std::string(b->GetBlockName()) != "NiNode" && !dynamic_cast<NiNode*>(static_cast<NiObject*>(b))) return fail("GetBlock", code, "id " + std::to_string(id), "wrong type handed out");
				NiBlockRef<NiNode> ref; ref.index = id; auto b2 = hdr.GetBlock(ref);
				if (b2 && !dynamic_cast<NiNode*>(hdr.GetBlock<NiObject>(id))) return fail("GetBlock(ref)", code, "id " + std::to_string(id), "a block that is not a NiNode was handed out as NiNode");
			}
		}
	}
	printf("AGREES %s\n", op.c_str());
	return 0;
}
