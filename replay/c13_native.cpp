// Bounded native stand-in for the per-vertex setter/getter pairs of BSTriShape (C13): drives the REAL library built from the tree
// under check (ASan/UBSan).  Oracle from the property statement: each per-vertex setter followed by its getter returns the given
// values within the documented quantisation (bytes covering [-1,1]: half a step = 1/255), resizes nothing else, and all per-vertex
// arrays keep the vertex count.  Scope: 1..4 vertices, every component on a 21-point grid of [-1,1] (vectors of any length <= sqrt 3).
// exit 1 + "FAILING INPUT ..." on the first disagreement.
#include "NifFile.hpp"
#include <cmath>
#include <cstdio>
using namespace nifly;

static int fail(const char* what, int n, int i, Vector3 in, Vector3 got) {
	printf("FAILING INPUT %s: %d vertices, vertex %d given (%g, %g, %g) read back (%g, %g, %g)\n", what, n, i, in.x, in.y, in.z, got.x, got.y, got.z);
	return 1;
}
static bool nearq(float a, float b) { return std::fabs(a - b) <= 1.0f / 255.0f + 1e-6f; }

int main() {
	const int G = 21;
	for (int n = 1; n <= 4; n++) {
		for (int code = 0; code < G * G * G; code++) {
			std::vector<Vector3> in(n);
			for (int i = 0; i < n; i++) {
				int c = (code + i * 977) % (G * G * G);
				in[i] = Vector3(-1.0f + 2.0f * (c % G) / (G - 1), -1.0f + 2.0f * ((c / G) % G) / (G - 1), -1.0f + 2.0f * ((c / G / G) % G) / (G - 1));
			}
			BSTriShape s;
			s.SetVertexData(std::vector<BSVertexData>(n));
			if (s.GetNumVertices() != n) { printf("FAILING INPUT SetVertexData: %d vertices, count %d\n", n, s.GetNumVertices()); return 1; }
			s.SetTangentData(in);
			auto& t = s.UpdateRawTangents();
			if ((int) t.size() != n || (int) s.vertData.size() != n) { printf("FAILING INPUT SetTangentData: %d vertices, arrays %zu / %zu\n", n, t.size(), s.vertData.size()); return 1; }
			for (int i = 0; i < n; i++) if (!nearq(t[i].x, in[i].x) || !nearq(t[i].y, in[i].y) || !nearq(t[i].z, in[i].z)) return fail("SetTangentData/UpdateRawTangents", n, i, in[i], t[i]);
			s.SetBitangentData(in);
			auto& b = s.UpdateRawBitangents();
			if ((int) b.size() != n || (int) s.vertData.size() != n) { printf("FAILING INPUT SetBitangentData: %d vertices, arrays %zu / %zu\n", n, b.size(), s.vertData.size()); return 1; }
			for (int i = 0; i < n; i++) if (b[i].x != in[i].x || !nearq(b[i].y, in[i].y) || !nearq(b[i].z, in[i].z)) return fail("SetBitangentData/UpdateRawBitangents", n, i, in[i], b[i]);
			s.SetNormals(in);
			auto& nr = s.UpdateRawNormals();
			if ((int) nr.size() != n || (int) s.vertData.size() != n) { printf("FAILING INPUT SetNormals: %d vertices, arrays %zu / %zu\n", n, nr.size(), s.vertData.size()); return 1; }
			for (int i = 0; i < n; i++) if (!nearq(nr[i].x, in[i].x) || !nearq(nr[i].y, in[i].y) || !nearq(nr[i].z, in[i].z)) return fail("SetNormals/UpdateRawNormals", n, i, in[i], nr[i]);
			// the tangents written earlier are still there (a setter resizes / rewrites nothing else)
			auto& t2 = s.UpdateRawTangents();
			for (int i = 0; i < n; i++) if (!nearq(t2[i].x, in[i].x) || !nearq(t2[i].y, in[i].y) || !nearq(t2[i].z, in[i].z)) return fail("tangents after SetBitangentData+SetNormals", n, i, in[i], t2[i]);
		}
	}
	printf("AGREES c13 setters/getters\n");
	return 0;
}
