#!/usr/bin/env python3
"""
driver -- extract, splice contracts, instrument (goto-instrument --dfcc), discharge (cbmc), localise, report.

Exit-status discipline (DESIGN.md 3.5):
  proved     : every generated obligation SUCCESS
  refuted    : the back end returned FAILURE (a model) for at least one obligation
  undecided  : timeout / unknown / tool error / extraction break / spliced text does not compile
Only `refuted` can ever lead to a VIOLATION line; `undecided` is exit 2.
"""
import os, re, sys, json, time, subprocess, shutil, hashlib
from collections import Counter, OrderedDict

HERE = os.path.dirname(os.path.abspath(__file__))
VERIF = os.path.dirname(HERE)
sys.path.insert(0, HERE)
import ast2c
from ast2c import ExtractionBreak, Types
import spec as specmod

REPO = ast2c.REPO
WORK = os.environ.get('VERIF_WORK') or os.path.join(VERIF, '.work')
SHIM = os.path.join(VERIF, 'shim')

CHECK_FLAGS_DEFAULT = ['--bounds-check', '--pointer-check', '--div-by-zero-check', '--signed-overflow-check',
                       '--undefined-shift-check', '--no-malloc-may-fail']


def sh(cmd, timeout=None, mem_gb=24, cwd=None):
    """run with timeout and address-space limit; returns (rc, out, seconds); rc=-9 on timeout.
    The command runs in its own process group and the WHOLE group is killed on timeout (cbmc forks the SMT solver: an orphaned
    cvc5 otherwise keeps running with gigabytes of memory)."""
    import signal
    t0 = time.time()
    pre = 'ulimit -v %d; ' % (mem_gb * 1024 * 1024)
    p = subprocess.Popen(['bash', '-c', pre + 'exec "$@"', 'x'] + cmd, stdout=subprocess.PIPE, stderr=subprocess.STDOUT,
                         text=True, cwd=cwd, errors='replace', start_new_session=True)
    try:
        out, _ = p.communicate(timeout=timeout)
        return p.returncode, out, time.time() - t0
    except subprocess.TimeoutExpired:
        try:
            os.killpg(p.pid, signal.SIGKILL)
        except ProcessLookupError:
            pass
        try:
            out, _ = p.communicate(timeout=10)
        except Exception:
            out = ''
        return -9, (out or '') + '\n[TIMEOUT after %ss]' % timeout, time.time() - t0


def tree_stamp():
    """hash of the source files the AST depends on (so cached dumps are never stale w.r.t. the working tree)"""
    h = hashlib.sha1()
    for d in ('include', 'src', 'external'):
        p = os.path.join(REPO, d)
        for f in sorted(os.listdir(p)):
            fp = os.path.join(p, f)
            if os.path.isfile(fp):
                st = os.stat(fp)
                h.update(('%s:%d:%d;' % (fp, st.st_mtime_ns, st.st_size)).encode())
    idir = os.path.join(VERIF, 'instantiate')
    if os.path.isdir(idir):
        for f in sorted(os.listdir(idir)):
            st = os.stat(os.path.join(idir, f))
            h.update(('%s:%d:%d;' % (f, st.st_mtime_ns, st.st_size)).encode())
    return h.hexdigest()[:12]


_STAMP = None


def astdir():
    global _STAMP
    if _STAMP is None:
        _STAMP = tree_stamp()
    d = os.path.join(WORK, 'ast', _STAMP)
    os.makedirs(d, exist_ok=True)
    # drop stale stamps
    base = os.path.join(WORK, 'ast')
    for x in os.listdir(base):
        if x != _STAMP:
            shutil.rmtree(os.path.join(base, x), ignore_errors=True)
    return d


def get_docs(tu, flt):
    d = astdir()
    src = tu if os.path.isabs(tu) else (os.path.join(VERIF, tu) if tu.startswith('instantiate/') else os.path.join(REPO, tu))
    key = hashlib.sha1((src + '|' + flt).encode()).hexdigest()[:16]
    out = os.path.join(d, 'ast_%s.json' % key)
    if not os.path.exists(out):
        tmp = out + '.%d.tmp' % os.getpid()
        cmd = ['clang++', '-std=c++17', '-fsyntax-only', '-Wno-everything',
               '-I' + os.path.join(REPO, 'include'), '-I' + os.path.join(REPO, 'external'),
               '-Xclang', '-ast-dump=json', '-Xclang', '-ast-dump-filter=' + flt, src]
        with open(tmp, 'w') as f:
            r = subprocess.run(cmd, stdout=f, stderr=subprocess.PIPE, text=True)
        if r.returncode != 0:
            os.unlink(tmp)
            raise ExtractionBreak('clang failed on %s: %s' % (src, r.stderr[-1500:]))
        os.rename(tmp, out)
    return ast2c.load_docs(open(out).read())


# ---------------------------------------------------------------------------------------------- assembling C text

def record_struct(recname, cname, tu, types):
    docs = get_docs(tu, recname.split('::')[-1])
    fields, ctors = ast2c.record_fields(docs, recname)
    lines = ['typedef struct %s {' % cname]
    for (n, q, d) in fields:
        m = re.match(r'^(.*)\[(\d+)\]$', q)
        if m:
            lines.append('\t%s %s[%s];' % (types.c(m.group(1)), n, m.group(2)))
        else:
            lines.append('\t%s %s;' % (types.c(q, d), n))
    lines.append('} %s;' % cname)
    # constructor parameter -> field correspondence, read off the member initialisers
    ctor_fields = {}
    for params, inits in ctors:
        srcs = {src: fld for (fld, src) in inits}
        if params and all(p in srcs for p in params):
            ctor_fields[len(params)] = [srcs[p] for p in params]
    return '\n'.join(lines), [f[0] for f in fields], ctor_fields


_ENUM_CACHE = {}


def enum_value_from_ast(tu, ty, name):
    """value of an enumerator, read from the AST of the real enum declaration"""
    short = ty.replace('const ', '').strip().split('::')[-1]
    key = (tu, short)
    if key not in _ENUM_CACHE:
        vals = {}
        for d in get_docs(tu, short):
            for n in ast2c.walk(d):
                if n.get('kind') == 'EnumDecl':
                    nxt = 0
                    for c in n.get('inner', []) or []:
                        if c.get('kind') == 'EnumConstantDecl':
                            v = None
                            for x in ast2c.walk(c):
                                if x.get('kind') == 'ConstantExpr' and 'value' in x:
                                    v = int(x['value'])
                                    break
                            if v is None:
                                v = nxt
                            vals[c['name']] = v
                            nxt = v + 1
        _ENUM_CACHE[key] = vals
    return _ENUM_CACHE[key].get(name)


GLOBAL_NAMES = []


def global_define(tu, name, types):
    if name not in GLOBAL_NAMES:
        GLOBAL_NAMES.append(name)
    """#define for a namespace-scope constant, its initialiser rendered from the AST"""
    for d in get_docs(tu, name):
        for n in ast2c.walk(d):
            if n.get('kind') == 'VarDecl' and n.get('name') == name and n.get('inner'):
                init = [c for c in n['inner'] if c.get('kind') not in ('FullComment',)][0]
                p = ast2c.Printer(types, {'name': '_global_' + name, '_selfs': {}, 'globals': GLOBAL_NAMES})
                return '#define %s (%s)' % (name, p.e(p.skip(init)))
    raise ExtractionBreak('global constant %s not found' % name)


def render_unit(unit, units, shared):
    """returns dict with sig/body text for an extracted unit (kind: function) or a lemma unit (kind: lemma)"""
    kind = unit.get('kind', 'function')
    if kind == 'lemma' or kind == 'stub':
        return {'sig': unit['sections'].get('signature', '').strip(), 'body': unit['sections'].get('body', ''), 'printer': None,
                'line': None, 'file': None}
    u = dict(unit)
    u['_selfs'] = shared['selfs']
    u['ctors'] = shared['ctors']
    if 'enums' not in u:
        u['enums'] = {}
    u['_enum_lookup'] = lambda ty, name: enum_value_from_ast(unit['tu'], ty, name)
    docs = get_docs(unit['tu'], unit['filter'])
    if kind == 'fragment':
        import fragment
        return fragment.render_fragment(u, docs, shared['types'])
    return ast2c.render_function(u, docs, shared['types'])


def splice(body, sections, unitname):
    used = set()

    def rep(m):
        tag, no = m.group(1), m.group(2)
        if tag == 'LOOP':
            key = 'loop %s' % no
        else:
            key = 'ghost %s %s' % (tag, no)
        if key in sections:
            used.add(key)
            txt = sections[key]
            if tag != 'LOOP':
                specmod.check_ghost_text(txt, unitname)
            return txt.rstrip('\n')
        return ''
    out = re.sub(r'/\*@(LOOP|BEFORE-LOOP|IN-LOOP|END-LOOP|AFTER-LOOP) (\d+)@\*/', rep, body)
    for k in sections:
        if (k.startswith('loop ') or k.startswith('ghost ')) and k not in used:
            raise ExtractionBreak('spec section %r of %s has no matching place in the extracted body (loop structure changed)' % (k, unitname))
    return out


def closure(unit, units):
    """units whose declarations+contracts must be visible: transitive over `uses`"""
    seen = []

    active = set()

    def go(n):
        active.add(n)
        for x in units[n].get('uses', []) + units[n].get('inline', []):
            if x not in units:
                raise specmod.SpecError('unit %s uses unknown unit %s' % (n, x))
            if x == unit['name'] or x in active:
                continue
            if x not in seen:
                go(x)
                seen.append(x)
        active.discard(n)
    go(unit['name'])
    return seen


def build_c(unit, units, outdir, defines=()):
    os.makedirs(outdir, exist_ok=True)
    # the unit handed in may be a modified copy (triage variants): it is the one that gets rendered
    units = dict(units)
    units[unit['name']] = unit
    if unit.get('base_uses'):
        # a base-class method called on `this`: the contract of the base unit is used VERBATIM (same text, same prelude), only the
        # self struct is the derived one -- inherited members have the same names, so the clauses mean the same thing
        units = dict(units)
        todo_ = list(unit['base_uses'])
        while todo_:
            b_ = todo_.pop()
            if b_ not in units:
                raise specmod.SpecError('unit %s base_uses unknown unit %s' % (unit['name'], b_))
            u2 = dict(units[b_])
            u2['self'] = unit['self']
            if u2.get('base_uses'):
                # the base unit has a base of its own (two levels of inheritance): its contract text needs that unit's prelude, types
                # and members as well, on the same derived self struct
                u2['uses'] = list(u2.get('uses', [])) + [x_ for x_ in u2['base_uses'] if x_ not in u2.get('uses', [])]
                todo_.extend(u2['base_uses'])
            units[b_] = u2
        unit = dict(unit)
        unit['uses'] = list(unit.get('uses', [])) + [b_ for b_ in unit['base_uses'] if b_ not in unit.get('uses', [])]
        units[unit['name']] = unit
    # type environment shared by this unit and everything it uses
    typemap = {}
    records = {}
    for n in closure(unit, units) + [unit['name']]:
        typemap.update(units[n].get('typemap', {}))
        for r in units[n].get('records', []):
            records[r] = r.split('::')[-1]
    types = Types(typemap, records)
    types.string_as_vector = bool(unit.get('string_as_vector'))
    shared = {'types': types, 'selfs': {}, 'ctors': {}}
    rec_txt = []
    for r, cn in records.items():
        rtu = unit.get('records_tu', 'src/Geometry.cpp')
        txt, flds, ctor_fields = record_struct(r, cn, rtu, types)
        rec_txt.append(txt)
        for k, v in ctor_fields.items():
            shared['ctors'][r] = v
            shared['ctors'][r.replace('nifly::', '')] = v
    used = closure(unit, units)
    rendered = OrderedDict()
    for n in used + [unit['name']]:
        rendered[n] = render_unit(units[n], units, shared)
    main = rendered[unit['name']]
    allu = used + [unit['name']]
    # members the contract talks about but the body does not touch (their frame is then proved by the assigns clause)
    for n in allu:
        if units[n].get('self') and isinstance(units[n].get('members'), dict):
            reg = shared['selfs'].setdefault(units[n]['self'], OrderedDict())
            for k, v in units[n]['members'].items():
                if '.' in k:
                    # Struct.member: a member of a partial struct
                    sn, mn = k.split('.', 1)
                    shared['selfs'].setdefault(sn, OrderedDict()).setdefault(mn, v)
                else:
                    reg.setdefault(k, v)
    inl = set()
    for n in allu:
        inl.update(units[n].get('inline', []))
    b_used_contract = [n for n in used if n not in inl and units[n].get('kind') != 'stub' or (units[n].get('kind') == 'stub' and units[n]['sections'].get('signature', '').strip())]
    b_used_contract = [n for n in b_used_contract if n not in inl]
    if unit.get('kind') == 'fragment' and unit['sections'].get('contract'):
        # every free variable of the fragment must be covered by the contract text; a variable the contract does not know (the code now
        # uses another local of the enclosing function) would be handed in as an unconstrained pointer and any failure would be an
        # artefact of the harness -- the fragment's interface changed: extraction break (exit 2)
        ctext_ = unit['sections']['contract'] + unit['sections'].get('prelude', '')
        for p_ in main.get('params') or []:
            pn_ = re.match(r'^(.*?)(\w+)$', p_.strip()).group(2)
            if pn_ != 'self' and not re.search(r'\b%s\b' % re.escape(pn_), ctext_):
                raise ExtractionBreak('fragment %s: interface changed -- free variable `%s` is not covered by the contract' % (unit['name'], pn_))
    body = splice(main['body'], unit['sections'], unit['name'])

    def named_call(m):
        # @CALL f(name=expr, ...)@ in a lemma body: arguments are matched to the parameter NAMES of the extracted function, so the
        # lemma does not depend on the order in which the extractor lists a fragment's free variables
        fn_, argtxt = m.group(1), m.group(2)
        if fn_ not in rendered or not rendered[fn_].get('params') and not rendered[fn_].get('sig'):
            raise ExtractionBreak('@CALL of unknown unit %s' % fn_)
        given = {}
        for a_ in ast2c.split_targs(argtxt):
            if '=' not in a_:
                raise specmod.SpecError('@CALL %s: argument without a name: %s' % (fn_, a_))
            k_, v_ = a_.split('=', 1)
            given[k_.strip()] = v_.strip()
        sm = re.match(r'^(.*?)\s(\w+)\((.*)\)$', rendered[fn_]['sig'], re.S)
        pnames = [re.match(r'^(.*?)(\w+)$', p_.strip()).group(2) for p_ in (ast2c.split_targs(sm.group(3)) if sm.group(3).strip() != 'void' else [])]
        if set(pnames) != set(given):
            raise ExtractionBreak('interface of %s changed: parameters %s, lemma passes %s' % (fn_, sorted(pnames), sorted(given)))
        return '%s(%s)' % (fn_, ', '.join(given[p_] for p_ in pnames))
    body = re.sub(r'@CALL\s+(\w+)\((.*?)\)@', named_call, body, flags=re.S)
    parts = ['/* GENERATED by /verif/tools/driver.py from %s (unit %s) -- do not edit */' % (unit.get('tu', 'lemma'), unit['name'])]
    parts += list(defines) + ['#include "nvec.h"']
    gl = []
    for n in allu:
        for g in units[n].get('globals', []):
            if g not in gl:
                gl.append(g)
                parts.append(global_define(units[n]['tu'], g, types))
    parts.append(types.typedefs(scalar_elems=True))
    parts += rec_txt
    seen_types = set()
    for n in allu:
        tx = units[n]['sections'].get('types', '')
        if tx.strip() and tx not in seen_types:
            seen_types.add(tx)
            parts.append('/* model types of %s */\n%s' % (n, tx))
    for n in allu:
        for ps in units[n].get('partial_structs', []):
            fw = 'typedef struct %s %s;' % (ps, ps)
            if fw not in parts:
                parts.append(fw)
    parts.append(types.typedefs(scalar_elems=False))
    for n in allu:
        for ps in units[n].get('partial_structs', []):
            shared['selfs'].setdefault(ps, OrderedDict())
    # struct bodies in dependency order (a by-value member needs its struct to be complete first)
    names = [n_ for n_ in shared['selfs'] if n_ != '_noself' and n_ not in records.values()]
    ordered = []

    def visit(n_, stack=()):
        if n_ in ordered or n_ in stack:
            return
        for ct_ in shared['selfs'][n_].values():
            if ct_ in names and ct_ != n_:
                visit(ct_, stack + (n_,))
        ordered.append(n_)
    for n_ in names:
        visit(n_)
    for sname in ordered:
        members = shared['selfs'][sname]
        if not members:
            members = {'_unused': 'char'}     # a partial struct none of whose members is touched: still a complete type
        parts.append('typedef struct %s {\n%s\n} %s;' % (sname, '\n'.join('\t%s %s;' % (ct, m) for m, ct in members.items()), sname))
    shim_ghosts = []
    for vn, el in types.vecs.items():
        parts.append('VEC_SHIMS(%s, %s)' % (vn, el))
        if any(re.search(r'\b%s_erase_at\s*\(' % re.escape(vn), rendered[n]['body'] or '') for n in allu):
            parts.append('size_t gh_e_%s;\nVEC_SHIMS_ERASE(%s, %s)' % (vn, vn, el))
            shim_ghosts.append(('size_t', 'gh_e_' + vn))
        if any(re.search(r'\b%s_assign\s*\(' % re.escape(vn), rendered[n]['body'] or '') for n in allu):
            parts.append('VEC_SHIMS_ASSIGN(%s, %s)' % (vn, el))
        if any(re.search(r'\b%s_resize_fill\s*\(' % re.escape(vn), rendered[n]['body'] or '') for n in allu):
            parts.append('size_t gh_f_%s;\nVEC_SHIMS_FILL(%s, %s)' % (vn, vn, el))
            shim_ghosts.append(('size_t', 'gh_f_' + vn))
        if any(re.search(r'\b%s_bsearch\s*\(' % re.escape(vn), rendered[n]['body'] or '') for n in allu):
            parts.append('VEC_SHIMS_BSEARCH(%s, %s)' % (vn, el))
        if any(re.search(r'\b%s_find\s*\(' % re.escape(vn), rendered[n]['body'] or '') for n in allu):
            parts.append('VEC_SHIMS_FIND(%s, %s)' % (vn, el))
        if any(re.search(r'\b%s_sort_(asc|desc)\s*\(' % re.escape(vn), rendered[n]['body'] or '') for n in allu):
            parts.append('VEC_SHIMS_SORT(%s, %s)' % (vn, el))
    instances_used = {}
    seen_pl = set()
    for n in allu:
        pl = units[n]['sections'].get('prelude', '')
        if pl.strip() and pl not in seen_pl:
            seen_pl.add(pl)
            parts.append('/* prelude of %s */\n%s' % (n, pl))
    # witness copies named by the contracts of used units that themselves use instances (their contracts mention gh_x_<i>)
    for n in used:
        for callee_, k_ in (units[n].get('instances') or {}).items():
            decl_ = []
            for gm in re.finditer(r'^\s*([A-Za-z_][\w ]*?[\w\*])\s+(gh_\w+(?:\s*,\s*gh_\w+)*)\s*;', units[callee_]['sections'].get('prelude', ''), re.M):
                for g in re.split(r'\s*,\s*', gm.group(2)):
                    for i_ in range(2, int(k_) + 1):
                        nm_ = '%s_%d' % (g, i_)
                        if not any(x[1] == nm_ for x in shim_ghosts):
                            decl_.append('%s %s;' % (gm.group(1), nm_))
                            shim_ghosts.append((gm.group(1), nm_))
            if decl_:
                parts.append('/* witness copies named by the contract of %s */\n%s' % (n, '\n'.join(decl_)))
    for n in used:
        r = rendered[n]
        if n in inl:
            # small accessor extracted from the real source and included with its BODY (not replaced by a contract)
            secs = units[n]['sections']
            if unit.get('unwind'):
                secs = {k: v for k, v in secs.items() if not k.startswith('loop ')}
            parts.append('/* inlined from the real source: %s */\nstatic %s\n%s' % (n, r['sig'], splice(r['body'], secs, n)))
        elif r['sig']:
            ctr = units[n]['sections'].get('contract', '').rstrip()
            k_inst = int((unit.get('instances') or {}).get(n, 1))
            if k_inst > 1:
                # WITNESS GENERALISATION: the callee contract is proved for ARBITRARY values of its ghost witnesses, and the real code
                # cannot read a ghost (ghost text is spliced, checked to assign ghosts only), so the contract holds for every choice
                # of witnesses at once.  The caller may therefore use k instances of the SAME ensures/assigns text, each over its own
                # copy gh_x_<i> of the callee's ghosts (textual renaming through the preprocessor, nothing is re-written by hand).
                gl_ = []
                for gm in re.finditer(r'^\s*([A-Za-z_][\w ]*?[\w\*])\s+(gh_\w+(?:\s*,\s*gh_\w+)*)\s*;', units[n]['sections'].get('prelude', ''), re.M):
                    for g in re.split(r'\s*,\s*', gm.group(2)):
                        gl_.append((gm.group(1), g))
                clauses = [l for l in ctr.split('\n') if l.startswith('__CPROVER_ensures') or l.startswith('__CPROVER_assigns')]
                for i_ in range(2, k_inst + 1):
                    decl_ = []
                    for ty_, g in gl_:
                        nm_ = '%s_%d' % (g, i_)
                        if not any(x[1] == nm_ for x in shim_ghosts):
                            decl_.append('%s %s;' % (ty_, nm_))
                            shim_ghosts.append((ty_, nm_))
                    if decl_:
                        parts.append('/* witness copies for instance %d of %s */\n%s' % (i_, n, '\n'.join(decl_)))
                    ctr += '\n/* instance %d (witness generalisation) */\n' % i_ + '\n'.join('#define %s %s_%d' % (g, g, i_) for _, g in gl_) + '\n' + \
                        '\n'.join(clauses) + '\n' + '\n'.join('#undef %s' % g for _, g in gl_)
                instances_used[n] = k_inst
            parts.append('/* used under contract: %s */\n%s\n%s\n;' % (n, r['sig'], ctr))
    parts.append('/* ---- function under verification: %s ---- */\n%s\n%s\n%s' % (unit['name'], main['sig'], unit['sections'].get('contract', '').rstrip(), body))
    # harness
    hname = 'h_' + unit['name']
    if 'harness' in unit['sections']:
        gdecl = []
        for n in used + [unit['name']]:
            for gm in re.finditer(r'^\s*([A-Za-z_][\w ]*?[\w\*])\s+(gh_\w+(?:\s*,\s*gh_\w+)*)\s*;', units[n]['sections'].get('prelude', ''), re.M):
                for g in re.split(r'\s*,\s*', gm.group(2)):
                    gdecl.append('\t{ %s nd_%s; %s = nd_%s; }' % (gm.group(1), g, g, g))
        for ty, g in shim_ghosts:
            gdecl.append('\t{ %s nd_%s; %s = nd_%s; }' % (ty, g, g, g))
        parts.append('void %s(void)\n{\n%s\n}' % (hname, unit['sections']['harness'].replace('/*@GHOST-HAVOC@*/', '\n'.join(gdecl))))
    else:
        m = re.match(r'^(.*?)\s(\w+)\((.*)\)$', main['sig'], re.S)
        params = [] if m.group(3).strip() == 'void' else ast2c.split_targs(m.group(3))
        decls = []
        args = []
        for i, p in enumerate(params):
            pm = re.match(r'^(.*?)(\w+)$', p.strip())
            decls.append('\t%s a%d;' % (pm.group(1).strip(), i))
            args.append('a%d' % i)
        # ghost witnesses are globals: CBMC zero-initialises statics, so the harness havocs every gh_* declared in a prelude
        for n in used + [unit['name']]:
            for gm in re.finditer(r'^\s*([A-Za-z_][\w ]*?[\w\*])\s+(gh_\w+(?:\s*,\s*gh_\w+)*)\s*;', units[n]['sections'].get('prelude', ''), re.M):
                for g in re.split(r'\s*,\s*', gm.group(2)):
                    decls.append('\t{ %s nd_%s; %s = nd_%s; }' % (gm.group(1), g, g, g))
        for ty, g in shim_ghosts:
            decls.append('\t{ %s nd_%s; %s = nd_%s; }' % (ty, g, g, g))
        call = '%s(%s);' % (unit['name'], ', '.join(args))
        parts.append('void %s(void)\n{\n%s\n\t%s\n#ifdef VACUITY\n\t__CPROVER_assert(0, "vacuity: end of harness reachable");\n#endif\n}' % (hname, '\n'.join(decls), call))
    ctext = '\n\n'.join(x for x in parts if x) + '\n'
    cpath = os.path.join(outdir, unit['name'] + '.c')
    open(cpath, 'w').write(ctext)
    p = main['printer']
    called = set(p.called) if p else set(re.findall(r'\b(\w+)\s*\(', main['body']))
    nloops = p.loop_no if p else 0
    fired = Counter()
    for n in used + [unit['name']]:
        if rendered[n]['printer']:
            fired.update(rendered[n]['printer'].fired)
    fired.update(types.fired)
    return {'cpath': cpath, 'harness': hname, 'called': called, 'loops': nloops, 'fired': dict(fired), 'used': b_used_contract, 'instances': instances_used,
            'src_file': main.get('file'), 'src_line': main.get('line'), 'ctext': ctext,
            'vec_types': list(types.vecs.keys())}


# ---------------------------------------------------------------------------------------------- verification

def instrument(unit, units, b, outdir, defines=(), tag=''):
    name = unit['name']
    gb = os.path.join(outdir, name + tag + '.gb')
    gbi = os.path.join(outdir, name + tag + '.i.gb')
    cmd = ['goto-cc', '-I' + SHIM, '--function', b['harness'], b['cpath'], '-o', gb] + ['-D' + d for d in defines]
    rc, out, _ = sh(cmd, timeout=120)
    if rc != 0:
        return None, 'goto-cc failed (spliced text does not compile):\n' + out[-3000:]
    ctext = b['ctext']
    # callees to replace by their contracts: the `uses` units and shim stubs, but only those actually called
    replace = []
    cand = list(b['used']) + unit.get('replace', [])
    for vt in b['vec_types']:
        cand += [vt + '_grow', vt + '_ctor_n'] + ([] if unit.get('unwind') else [vt + '_erase_at', vt + '_sort_desc', vt + '_sort_asc', vt + '_resize_fill'])
    body_txt = ctext[ctext.index('/* ---- function under verification'):]
    for mm in re.finditer(r'/\* inlined from the real source: .*?(?=\n/\* (?:inlined|used|----|prelude))', ctext, re.S):
        body_txt += mm.group(0)
    # inline shim wrappers call _grow
    for c in cand:
        if re.search(r'\b%s\s*\(' % re.escape(c), body_txt) or (c.endswith('_grow') and re.search(r'\b%s_resize\s*\(' % re.escape(c[:-5]), body_txt)):
            if c not in replace:
                replace.append(c)
    cmd = ['goto-instrument', '--no-malloc-may-fail', '--dfcc', b['harness'], '--enforce-contract' + ('-rec' if unit.get('recursive') else ''), name]
    for r in replace:
        cmd += ['--replace-call-with-contract', r]
    has_loop_contract = any(k.startswith('loop ') for k in unit['sections'])
    if has_loop_contract:
        cmd += ['--apply-loop-contracts']
    cmd += [gb, gbi]
    rc, out, _ = sh(cmd, timeout=300)
    if rc != 0:
        return None, 'goto-instrument failed:\n' + ' '.join(cmd) + '\n' + out[-3000:]
    return {'gb': gbi, 'replace': replace, 'instrument_cmd': ' '.join(cmd)}, None


def backend_flags(unit, override=None):
    be = override or unit.get('backend', 'cvc5')
    if be == 'cvc5':
        return ['--cvc5']
    if be == 'z3':
        return ['--z3']
    if be == 'sat':
        return []
    if be == 'kissat':
        return ['--external-sat-solver', 'kissat']
    raise specmod.SpecError('unknown backend ' + be)


def check_flags(unit):
    fl = list(CHECK_FLAGS_DEFAULT)
    for f in unit.get('flags', []):
        if f.startswith('-no'):
            x = '--' + f[4:]
            if x in fl:
                fl.remove(x)
            fl.append('--no-' + f[4:])     # CBMC 6 switches the standard checks on by default
        else:
            fl.append(f)
    if unit.get('unwind'):
        fl += ['--unwind', str(unit['unwind']), '--unwinding-assertions']
    elif unit.get('outer_unwind'):
        fl += ['--unwind', str(unit['outer_unwind']), '--unwinding-assertions']
    return fl


def list_properties(gb, flags):
    rc, out, _ = sh(['cbmc', '--show-properties', '--json-ui'] + flags + [gb], timeout=120)
    props = []
    try:
        j = json.loads(out)
        for item in j:
            if isinstance(item, dict) and 'properties' in item:
                for p in item['properties']:
                    props.append(p)
    except Exception:
        pass
    return props


RES_RE = re.compile(r'^\[([^\]]+)\]\s+(.*?):\s+(SUCCESS|FAILURE|ERROR|UNKNOWN)\s*$')


def parse_results(out):
    res = OrderedDict()
    for line in out.split('\n'):
        m = RES_RE.match(line.strip())
        if m:
            res[m.group(1)] = (m.group(3), m.group(2))
    return res


def run_cbmc(gb, flags, be_flags, timeout, props=None, trace=False):
    cmd = ['cbmc'] + flags + be_flags + (['--trace'] if trace else [])
    for p in (props or []):
        cmd += ['--property', p]
    cmd.append(gb)
    rc, out, secs = sh(cmd, timeout=timeout)
    verdict = 'undecided'
    if 'VERIFICATION SUCCESSFUL' in out:
        verdict = 'proved'
    elif 'VERIFICATION FAILED' in out:
        verdict = 'refuted'
    return {'verdict': verdict, 'out': out, 'secs': secs, 'cmd': ' '.join(cmd), 'results': parse_results(out), 'rc': rc}


def obligation_classes(props):
    c = Counter()
    for p in props:
        name = p.get('name', '')
        cls = p.get('class', '')
        if 'loop_invariant_base' in name:
            c['loop_invariant_base'] += 1
        elif 'loop_invariant_step' in name:
            c['loop_invariant_step'] += 1
        elif 'loop_decreases' in name:
            c['loop_decreases'] += 1
        elif 'postcondition' in name:
            c['postcondition'] += 1
        elif 'precondition' in name:
            c['precondition'] += 1
        elif 'assigns' in name:
            c['assigns'] += 1
        elif 'unwind' in name:
            c['unwind'] += 1
        else:
            c['safety:' + (cls or name.split('.')[-2] if '.' in name else 'other')] += 1
    return c


def dev_run(unit, units, cap=6):
    """development aid: same contract + loop contracts at small capacity with SAT, prints failing obligations with a trace"""
    outdir = os.path.join(WORK, 'dev', unit['name'])
    shutil.rmtree(outdir, ignore_errors=True)
    b = build_c(unit, units, outdir, defines=['#define CAP %d' % cap, '#define BOUNDED 1'])
    inst, err = instrument(unit, units, b, outdir)
    if err:
        print(err)
        return
    flags = check_flags(unit)
    r = run_cbmc(inst['gb'], flags + ['--trace'], [], 600)
    open(os.path.join(outdir, 'dev.log'), 'w').write(r['out'])
    print(r['verdict'], '%.1fs' % r['secs'], len(r['results']), 'obligations')
    for k, v in r['results'].items():
        if v[0] == 'FAILURE':
            print('  ', k, v[0], v[1])
    print('   (+%d UNKNOWN)' % sum(1 for v in r['results'].values() if v[0] not in ('SUCCESS', 'FAILURE')))
    print('log:', os.path.join(outdir, 'dev.log'))


def vacuity_check(unit, units):
    """guard (b) of DESIGN 3.4: with the precondition assumed and the function executed, the end of the harness must be REACHABLE
    (an assertion `false` there must fail).  Small capacity, SAT.  Returns (ok, message)."""
    if 'harness' in unit['sections'] or unit.get('kind') == 'stub':
        return True, 'custom harness: not checked'
    outdir = os.path.join(WORK, 'vacuity', unit['name'])
    shutil.rmtree(outdir, ignore_errors=True)
    u = dict(unit)
    cap = unit.get('cap', '4')
    try:
        if unit.get('unwind'):
            u['sections'] = {k: v for k, v in unit['sections'].items() if not k.startswith('loop ')}
            b = build_c(u, units, outdir, defines=['#define CAP %s' % cap, '#define BOUNDED 1', '#define SHIM_IMPL 1', '#define VACUITY 1'])
        else:
            b = build_c(u, units, outdir, defines=['#define CAP %s' % cap, '#define BOUNDED 1', '#define VACUITY 1'])
    except (ExtractionBreak, specmod.SpecError) as e:
        return False, 'build failed: %s' % e
    inst, err = instrument(u, units, b, outdir)
    if err:
        return False, err[:300]
    flags = [f for f in check_flags(unit) if not f.endswith('-check')]
    r = run_cbmc(inst['gb'], flags, [], 600, props=[b['harness'] + '.assertion.1'])
    st = r['results'].get(b['harness'] + '.assertion.1', (None, ''))[0]
    if st == 'FAILURE':
        return True, 'end of harness reachable'
    if st == 'SUCCESS':
        return False, 'VACUOUS: the end of the harness is unreachable (contradictory precondition or the function never returns)'
    return True, 'no verdict (%s)' % r['verdict']


def verify_unit(unit, units, tier='quick', jobs=4, log=None):
    """full pipeline for one unit; a refutation that rests on a call of a function the model does not define is an extraction
    break (the extractor rendered a library call it has no model for), never a violation"""
    res = _verify_unit(unit, units, tier=tier, jobs=jobs, log=log)
    if res.get('status') == 'refuted':
        nomodel = [f for f in res.get('failed', []) if 'undefined function should be unreachable' in (f.get('text') or '')]
        if nomodel:
            names = sorted(set(f['obligation'].split('.')[0] for f in nomodel))
            res['status'] = 'undecided'
            res['failed'] = []
            res['reason'] = 'EXTRACTION-BREAK: the body calls %s, for which the unit has no model' % ', '.join(names)
    return res


def _verify_unit(unit, units, tier='quick', jobs=4, log=None):
    """full pipeline for one unit; returns result dict"""
    name = unit['name']
    outdir = os.path.join(WORK, 'units', name)
    shutil.rmtree(outdir, ignore_errors=True)
    os.makedirs(outdir, exist_ok=True)
    res = {'unit': name, 'status': 'undecided', 'obligations': 0, 'discharged': 0, 'failed': [], 'reason': '',
           'solver_s': 0.0, 'backend': unit.get('backend', 'cvc5'), 'bounded': bool(unit.get('unwind')),
           'kind': unit.get('kind', 'function'), 'source': unit.get('tu'), 'decl': unit.get('decl'), 'sig': unit.get('sig')}
    t0 = time.time()
    try:
        if unit.get('unwind'):
            # bounded stand-in: small capacity, loop contracts dropped, loops unwound with unwinding assertions (never counted as proved)
            unit = dict(unit)
            unit['sections'] = {k: v for k, v in unit['sections'].items() if not k.startswith('loop ')}
            unit['backend'] = unit.get('bounded_backend', 'sat')
            b = build_c(unit, units, outdir, defines=['#define CAP %s' % unit.get('cap', '5'), '#define BOUNDED 1', '#define SHIM_IMPL 1'])
        elif unit.get('outer_unwind'):
            # outer-bounded: arrays at full capacity (65536) with the configured back end, loop contracts and callee contracts kept;
            # only loops WITHOUT a loop contract (loops over a nested container whose element count is bounded in the requires
            # clause) are unwound, with unwinding assertions.  Reported as a bounded stand-in, never counted as proved.
            res['bounded'] = True
            res['mode'] = 'outer-bounded (arrays: capacity 65536, %s; loops over %s unwound %s times with unwinding assertions)' % (
                unit.get('backend', 'cvc5'), unit.get('outer_what', 'the outer container'), unit['outer_unwind'])
            b = build_c(unit, units, outdir)
        elif unit.get('cap'):
            # capacity-bounded: loop contracts kept (induction over iterations), but every container holds <= cap elements.
            # Reported as a bounded stand-in, never counted as proved.
            unit = dict(unit)
            unit['backend'] = unit.get('bounded_backend', 'sat')
            res['bounded'] = True
            res['backend'] = unit['backend']
            b = build_c(unit, units, outdir, defines=['#define CAP %s' % unit['cap'], '#define BOUNDED 1'])
        else:
            b = build_c(unit, units, outdir)
    except ExtractionBreak as e:
        res['reason'] = 'EXTRACTION-BREAK: %s' % e
        return res
    except specmod.SpecError as e:
        res['reason'] = 'SPEC-ERROR: %s' % e
        return res
    res['extract_s'] = time.time() - t0
    res['rule_firings'] = b['fired']
    res['src_line'] = b['src_line']
    res['c_file'] = b['cpath']
    inst, err = instrument(unit, units, b, outdir)
    if err:
        res['reason'] = err
        return res
    res['replaced'] = inst['replace']
    res['instrument_cmd'] = inst['instrument_cmd']
    flags = check_flags(unit)
    props = list_properties(inst['gb'], flags)
    classes = obligation_classes(props)
    res['obligation_classes'] = dict(classes)
    # vacuity guard (a): the obligation classes the spec implies are present
    need = []
    if unit['sections'].get('contract', '').find('__CPROVER_ensures') >= 0:
        need.append('postcondition')
    nl = len([k for k in unit['sections'] if k.startswith('loop ')])
    if nl:
        need += ['loop_invariant_base', 'loop_invariant_step']
    missing = [c for c in need if classes[c] == 0]
    if nl and classes['loop_invariant_step'] < nl:
        missing.append('loop_invariant_step(%d<%d)' % (classes['loop_invariant_step'], nl))
    if missing or not props:
        res['reason'] = 'VACUITY: obligation classes missing: %s (of %d obligations)' % (missing, len(props))
        return res
    if b['loops'] > nl and not unit.get('unwind') and not unit.get('outer_unwind'):
        res['reason'] = 'SPEC-ERROR: %d loops in the extracted body but only %d loop contracts and no unwind bound' % (b['loops'], nl)
        return res
    timeout = int(unit.get('timeout', 900 if tier == 'quick' else 2400))
    results = {}
    r = None
    if unit.get('mode') != 'split':
        r = run_cbmc(inst['gb'], flags, backend_flags(unit), timeout)
        res['solver_s'] += r['secs']
        res['checker_cmd'] = r['cmd']
        open(os.path.join(outdir, 'cbmc_all.log'), 'w').write(r['out'])
        if re.search(r'ignoring (forall|exists)', r['out']):
            res['reason'] = 'quantifier ignored by back end'
            return res
        results = r['results']
        res['obligations'] = len(results) if results else len(props)
        if r['verdict'] == 'proved':
            res['discharged'] = sum(1 for v in results.values() if v[0] == 'SUCCESS')
            if res['discharged'] != res['obligations'] or res['obligations'] == 0:
                res['reason'] = 'inconsistent result table'
                return res
            res['status'] = 'proved'
            res['samples'] = sample_obligations(results)
            if tier == 'thorough':
                ok, msg = vacuity_check(unit, units)
                res['vacuity'] = msg
                if not ok:
                    res['status'] = 'undecided'
                    res['reason'] = msg
            return res
        bad = [k for k, v in results.items() if v[0] == 'FAILURE']
        if r['verdict'] == 'refuted' and bad:
            res['status'] = 'refuted'
            res['failed'] = [{'obligation': k, 'text': results[k][1]} for k in bad]
            res['discharged'] = sum(1 for v in results.values() if v[0] == 'SUCCESS')
            res['reason'] = 'back end refuted %d obligation(s)' % len(bad)
            res['cbmc_log'] = os.path.join(outdir, 'cbmc_all.log')
            return res
    # split mode: every contract obligation on its own, all safety obligations as one group (parallel)
    loc = localise(inst['gb'], flags, unit, props, outdir, jobs=jobs, timeout=timeout)
    res['solver_s'] += loc['secs']
    res['obligations'] = loc['total']
    res['discharged'] = loc['ok']
    res['checker_cmd'] = 'cbmc %s %s --property <each contract obligation | all safety obligations> %s' % (' '.join(flags), ' '.join(backend_flags(unit)), inst['gb'])
    if loc['failed']:
        res['status'] = 'refuted'
        res['failed'] = loc['failed']
        res['reason'] = 'back end refuted %d obligation(s) (split run)' % len(loc['failed'])
    elif loc['undecided']:
        res['status'] = 'undecided'
        res['undecided_obligations'] = loc['undecided']
        res['reason'] = 'split run: %d obligation(s) without verdict (%s...)' % (len(loc['undecided']), ', '.join(loc['undecided'][:4]))
    else:
        res['status'] = 'proved'
        res['samples'] = [{'obligation': p['name'], 'text': p.get('description', '')} for p in props if 'postcondition' in p['name']][:3]
        if r is not None:
            res['reason'] = 'proved in split mode (all-at-once run gave no verdict in %ds)' % timeout
    return res


def sample_obligations(results):
    out = []
    keys = list(results.keys())
    pick = [k for k in keys if 'postcondition' in k][:2] + [k for k in keys if 'loop_invariant_step' in k][:1] + \
           [k for k in keys if 'pointer_dereference' in k][:1] + [k for k in keys if 'assigns' in k][:1]
    for k in pick:
        out.append({'obligation': k, 'text': results[k][1]})
    return out


CONTRACT_OB = re.compile(r'postcondition|precondition|loop_invariant|loop_decreases|loop_step|assigns|unwind')


def localise(gb, flags, unit, props, outdir, jobs=8, timeout=300):
    from concurrent.futures import ThreadPoolExecutor
    names = [p['name'] for p in props]
    contract = [n for n in names if CONTRACT_OB.search(n)]
    safety = [n for n in names if not CONTRACT_OB.search(n)]
    groups = [[n] for n in contract]
    if safety:
        groups.append(safety)
    be = backend_flags(unit)
    t0 = time.time()

    def one(g):
        return g, run_cbmc(gb, flags, be, timeout, props=g)
    ok = 0
    failed = []
    undec = []
    # budget: when the first results are all timeouts the rest will be too -- give up instead of burning hours
    stop = {'flag': False}

    def one_guarded(g):
        if stop['flag']:
            return g, {'verdict': 'undecided', 'out': '[skipped: earlier obligations of this unit all timed out]', 'results': {}, 'secs': 0.0}
        return one(g)
    with ThreadPoolExecutor(max_workers=jobs) as ex:
        for g, r in ex.map(one_guarded, groups):
            if len(undec) >= 6 and ok == 0 and not failed:
                stop['flag'] = True
            tag = re.sub(r'\W+', '_', g[0]) if len(g) == 1 else 'safety_group'
            if r['verdict'] == 'proved':
                ok += len(g)
            elif r['verdict'] == 'refuted':
                for pn in g:
                    st = r['results'].get(pn, (None, ''))
                    if st[0] == 'FAILURE':
                        failed.append({'obligation': pn, 'text': st[1]})
                    elif st[0] == 'SUCCESS':
                        ok += 1
                open(os.path.join(outdir, 'fail_%s.log' % tag), 'w').write(r['out'][-200000:])
            else:
                undec += g if len(g) == 1 else ['safety_group(%d obligations)' % len(g)]
                open(os.path.join(outdir, 'undec_%s.log' % tag), 'w').write(r['out'][-5000:])
    return {'total': len(names), 'ok': ok, 'failed': failed, 'undecided': undec, 'secs': time.time() - t0}


if __name__ == '__main__':
    import argparse
    ap = argparse.ArgumentParser()
    ap.add_argument('unit')
    ap.add_argument('--emit-only', action='store_true')
    ap.add_argument('--tier', default='quick')
    ap.add_argument('--dev', type=int, default=0)
    a = ap.parse_args()
    units = specmod.load_all(os.path.join(VERIF, 'contracts'))
    u = units[a.unit]
    if a.dev:
        dev_run(u, units, a.dev)
    elif a.emit_only:
        try:
            b = build_c(u, units, os.path.join(WORK, 'units', a.unit))
            print(b['ctext'])
        except ExtractionBreak as e:
            print('EXTRACTION-BREAK:', e)
            sys.exit(2)
    else:
        r = verify_unit(u, units, a.tier, jobs=16)
        r.pop('rule_firings', None)
        print(json.dumps(r, indent=1))
