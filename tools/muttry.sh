#!/bin/bash
# usage: muttry.sh <PROP> <units> <file-under-repo> <python-re-pattern> <replacement>
# ad-hoc mutation probe (development aid, not a registered check): scratch worktree of /repo HEAD, one regex substitution
# (must change the file), run ./check PROP --only units against it, remove the worktree.
P=$1; U=$2; F=$3; PAT=$4; REP=$5
WT=/tmp/muttry/wt; rm -rf /tmp/muttry; mkdir -p /tmp/muttry
git -C /repo worktree add --detach $WT HEAD -q || exit 9
python3 - "$WT/$F" "$PAT" "$REP" <<'PY' || { git -C /repo worktree remove --force $WT; exit 9; }
import sys,re
p,pat,rep=sys.argv[1:4]
s=open(p).read(); t,n=re.subn(pat,rep,s,count=1,flags=re.S)
if n!=1 or t==s: sys.exit('pattern did not apply')
open(p,'w').write(t)
PY
git -C $WT diff | head -30
cd /verif && NIFLY_REPO=$WT VERIF_WORK=/tmp/muttry/work VERIF_EVIDENCE_DIR=/tmp/muttry/work/evidence timeout 3000 ./check $P --only $U; rc=$?
git -C /repo worktree remove --force $WT; git -C /repo worktree prune
echo "MUTTRY rc=$rc (replays under /tmp/muttry/work/replay)"
