#!/usr/bin/env python3
"""
c05 -- "every serialised block/string reference is enumerated by its owner" as proof obligations over a MECHANICAL SLICE
(DESIGN.md 4, C05).  For every class with a Sync() body in src/*.cpp the slicer keeps

   in Sync                : the statements `m.Sync(stream ...)` on members whose (sugared) type is a reference type
                            (NiBlockRef/NiBlockPtr/...Array/NiStringRef/NiStringRefVector) or a struct that has enumerators
                            of its own, together with the enclosing conditions, loops and early returns;
   in the enumerators     : `refs.insert(&m)`, `refs.emplace_back(&m)`, `indices.push_back(m.index)`, `m.GetIndexPtrs(refs)`,
                            `m.GetIndices(..)`, `m.Get{ChildRefs,Ptrs,StringRefs,ChildIndices}(..)`, with their conditions/loops.

and emits, per (class, member, enumerator kind), one C function whose postcondition is

        for every version, every member valuation, every element index:   serialised  ==>  enumerated

Conditions are rendered over shared symbolic members / version numbers; anything the renderer does not know becomes a
nondeterministic boolean keyed by its source text (the same text on both sides shares the symbol).  CBMC discharges the
obligations (loop-free, complete).  Classes whose bodies contain shapes outside the slicer's table are LISTED as unchecked.
"""
import os, re, sys, json, subprocess, hashlib
from collections import OrderedDict, defaultdict

HERE = os.path.dirname(os.path.abspath(__file__))
sys.path.insert(0, HERE)
import driver, ast2c
from ast2c import walk

TUS = ['src/Animation.cpp', 'src/BasicTypes.cpp', 'src/ExtraData.cpp', 'src/Geometry.cpp', 'src/Nodes.cpp', 'src/Objects.cpp',
       'src/Particles.cpp', 'src/Shaders.cpp', 'src/Skin.cpp', 'src/bhk.cpp']
ENUMS = {'GetChildRefs': 'refs', 'GetChildIndices': 'idx', 'GetPtrs': 'ptrs', 'GetStringRefs': 'strs'}
ENUM_CALLS = set(ENUMS) | {'GetIndexPtrs', 'GetIndices'}


def ref_kinds(tstr):
    """enumerator kinds a member of this (sugared) type must appear in"""
    t = tstr.replace('nifly::', '').replace('const ', '')
    if re.search(r'\bNiStringRefVector\b', t) or re.search(r'\bNiStringRef\b', t):
        return {'strs'}
    if re.search(r'\bNiBlockPtr(Array|ShortArray)?<', t):
        return {'ptrs'}
    if re.search(r'\bNiBlockRef(Array|ShortArray)?<', t):
        return {'refs', 'idx'}
    return None


def class_of_type(tstr):
    t = tstr.replace('const ', '').strip().rstrip('&* ').strip()
    m = re.match(r'^(?:std::)?vector<(.*)>$', t) or re.match(r'^(?:nifly::)?Ni(?:Sync)?Vector<(.*?)(?:,.*)?>$', t)
    if m:
        t = m.group(1).strip()
    t = re.sub(r'<.*>$', '', t)
    return t.replace('nifly::', '').split('::')[-1]


class Slice:
    def __init__(self, cls, method, tu, line):
        self.cls, self.method, self.tu, self.line = cls, method, tu, line
        self.events = []          # (path, member_type, guards)
        self.base_call = False
        self.unknown = []         # shapes outside the table


class Slicer:
    def __init__(self):
        self.src_cache = {}
        self.local_init = {}

    def canon(self, n):
        """source-independent rendering of an expression subtree (used as the identity of opaque conditions)"""
        k = n.get('kind')
        if k in ('ImplicitCastExpr', 'ParenExpr', 'ExprWithCleanups', 'MaterializeTemporaryExpr', 'CXXBindTemporaryExpr', 'ConstantExpr'):
            return self.canon(n['inner'][-1]) if n.get('inner') else k
        bits = [k or '?']
        for key in ('name', 'opcode', 'value'):
            if key in n:
                bits.append(str(n[key]))
        rd = n.get('referencedDecl', {})
        if rd.get('name'):
            bits.append(rd['name'])
        inner = [self.canon(c) for c in (n.get('inner') or []) if isinstance(c, dict) and c.get('kind')]
        return ' '.join(bits) + ('(' + ', '.join(inner) + ')' if inner else '')

    def text(self, n):
        return self.canon(n)

    def text_src(self, n):
        r = n.get('range', {})
        b, e = r.get('begin', {}), r.get('end', {})
        b = b.get('expansionLoc', b)
        e = e.get('expansionLoc', e)
        f = b.get('file') or self.cur_file
        if 'offset' not in b or 'offset' not in e:
            return None
        if f not in self.src_cache:
            try:
                self.src_cache[f] = open(f, 'rb').read()
            except Exception:
                return None
        s = self.src_cache[f][b['offset']: e['offset'] + e.get('tokLen', 1)]
        return s.decode(errors='replace')

    # ---- member paths -------------------------------------------------------------------------
    def path(self, n, env):
        """member path of an lvalue expression rooted at this / a loop variable, or None"""
        while n.get('kind') in ('ImplicitCastExpr', 'ParenExpr', 'MaterializeTemporaryExpr', 'CXXBindTemporaryExpr', 'ExprWithCleanups') and n.get('inner'):
            n = n['inner'][0]
        k = n.get('kind')
        I = n.get('inner', []) or []
        if k == 'CXXThisExpr':
            return ''
        if k == 'MemberExpr':
            p = self.path(I[0], env)
            if p is None:
                return None
            return (p + '.' if p else '') + n['name']
        if k == 'DeclRefExpr':
            rid = n.get('referencedDecl', {}).get('id')
            if rid in env:
                return env[rid]
            return None
        if k == 'ArraySubscriptExpr':
            p = self.path(I[0], env)
            return None if p is None else p + '[]'
        if k == 'CXXOperatorCallExpr':
            f = I[0]
            while f.get('kind') != 'DeclRefExpr' and f.get('inner'):
                f = f['inner'][0]
            if f.get('referencedDecl', {}).get('name') == 'operator[]':
                p = self.path(I[1], env)
                return None if p is None else p + '[]'
            if f.get('referencedDecl', {}).get('name') == 'operator*':
                return self.path(I[1], env)
        if k == 'UnaryOperator' and n.get('opcode') in ('*', '&'):
            return self.path(I[0], env)
        if k == 'CXXMemberCallExpr':
            me = I[0]
            if me.get('kind') == 'MemberExpr' and me.get('name') in ('back', 'front', 'at'):
                p = self.path(me['inner'][0], env)
                return None if p is None else p + '[]'
        return None

    # ---- statement walk -------------------------------------------------------------------------
    def walk_stmt(self, n, guards, env, sl, mode):
        k = n.get('kind')
        I = n.get('inner', []) or []
        if k == 'CompoundStmt':
            g = list(guards)
            for c in I:
                self.walk_stmt(c, g, env, sl, mode)
                # early return: `if (c) return;` guards the rest of the block with !c
                if c.get('kind') == 'IfStmt' and len(c.get('inner', [])) == 2:
                    th = c['inner'][1]
                    last = th['inner'][-1] if th.get('kind') == 'CompoundStmt' and th.get('inner') else th
                    if last.get('kind') == 'ReturnStmt':
                        g = g + [('cond', c['inner'][0], False)]
            return
        if k == 'IfStmt':
            cond = I[0]
            self.walk_stmt(I[1], guards + [('cond', cond, True)], env, sl, mode)
            if len(I) > 2:
                self.walk_stmt(I[2], guards + [('cond', cond, False)], env, sl, mode)
            return
        if k == 'CXXForRangeStmt':
            rng = lv = None
            for c in I:
                if c.get('kind') == 'DeclStmt':
                    v = c['inner'][0]
                    if v.get('name', '').startswith('__range'):
                        rng = v
                    elif not v.get('name', '').startswith('__'):
                        lv = v
            rp = self.path(rng['inner'][0], env) if rng is not None and rng.get('inner') else None
            env2 = dict(env)
            if lv is not None and rp is not None:
                env2[lv['id']] = rp + '[]'
                self.walk_stmt(I[-1], guards + [('range', rp)], env2, sl, mode)
            else:
                sl.unknown.append('range-for over ' + str(self.text(rng['inner'][0]) if rng and rng.get('inner') else '?'))
                self.walk_stmt(I[-1], guards + [('opaque', 'loop@%s' % n.get('id'))], env, sl, mode)
            return
        if k == 'ForStmt':
            init, _cv, cond, inc, body = I
            var = None
            if init.get('kind') == 'DeclStmt' and init.get('inner'):
                var = init['inner'][0]
            bound = None
            if cond.get('kind') == 'BinaryOperator' and cond.get('opcode') in ('<', '!='):
                bound = cond['inner'][1]
            env2 = dict(env)
            if var is not None and bound is not None:
                env2[('idx', var['id'])] = True
                self.walk_stmt(body, guards + [('counted', bound, var['id'])], env2, sl, mode)
            else:
                sl.unknown.append('for loop shape: ' + str(self.text(n))[:60])
                self.walk_stmt(body, guards + [('opaque', 'loop@%s' % n.get('id'))], env, sl, mode)
            return
        if k in ('WhileStmt', 'DoStmt'):
            sl.unknown.append('while loop')
            self.walk_stmt(I[-1], guards + [('opaque', 'loop@%s' % n.get('id'))], env, sl, mode)
            return
        if k == 'SwitchStmt':
            sl.unknown.append('switch')
            self.walk_stmt(I[-1], guards + [('opaque', 'switch@%s' % n.get('id'))], env, sl, mode)
            return
        if k in ('CaseStmt', 'DefaultStmt'):
            for c in I:
                self.walk_stmt(c, guards, env, sl, mode)
            return
        if k == 'DeclStmt':
            # locals initialised once (`const NiFileVersion fileVersion = stream.GetVersion().File();`): conditions over them are
            # rendered through their initialiser
            for v in I:
                if v.get('kind') == 'VarDecl' and v.get('inner') and not v['type']['qualType'].strip().endswith('&'):
                    self.local_init[v['id']] = v['inner'][0]
            # references bound to elements: `auto& x = vec[i];`
            for v in I:
                if v.get('kind') == 'VarDecl' and v.get('inner') and v['type']['qualType'].strip().endswith('&'):
                    p = self.path(v['inner'][0], env)
                    if p is not None:
                        env[v['id']] = p
            return
        self.expr_events(n, guards, env, sl, mode)

    def expr_events(self, n, guards, env, sl, mode):
        for x in walk(n):
            if x.get('kind') != 'CXXMemberCallExpr' or not x.get('inner'):
                continue
            me = x['inner'][0]
            if me.get('kind') != 'MemberExpr':
                continue
            name = me.get('name')
            obj = me['inner'][0]
            args = x['inner'][1:]
            if mode == 'sync' and name in ('Sync', 'Read', 'Write'):
                p = self.path(obj, env)
                if p:       # non-empty: a member (not this->Sync / stream.Sync)
                    t = obj
                    while t.get('kind') in ('ImplicitCastExpr', 'ParenExpr') and t.get('inner'):
                        t = t['inner'][0]
                    ty = t.get('type', {}).get('qualType', '')
                    sl.events.append((p, ty, list(guards)))
            elif mode == 'enum':
                p = self.path(obj, env)
                if name in ENUM_CALLS:
                    if p == '':
                        sl.base_call = True
                    elif p:
                        sl.events.append((p, name, list(guards)))
                elif name in ('insert', 'emplace_back', 'push_back') and args:
                    a = args[0]
                    while a.get('kind') in ('ImplicitCastExpr', 'MaterializeTemporaryExpr', 'CXXBindTemporaryExpr', 'ExprWithCleanups', 'CXXConstructExpr') and a.get('inner'):
                        a = a['inner'][0]
                    ap = self.path(a, env)
                    if ap is not None and ap.endswith('.index'):
                        ap = ap[:-6]
                    if ap:
                        sl.events.append((ap, name, list(guards)))
                    else:
                        sl.unknown.append('insert of ' + str(self.text(args[0]))[:50])

    def slices_of_tu(self, tu):
        out = []
        for flt, mode in [('::Sync', 'sync')] + [('::' + e, 'enum') for e in ENUMS]:
            docs = driver.get_docs(tu, flt)
            seen = set()
            for d in docs:
                for n in walk(d):
                    if n.get('kind') != 'CXXMethodDecl' or n.get('id') in seen:
                        continue
                    name = n.get('name')
                    if (mode == 'sync' and name != 'Sync') or (mode == 'enum' and name not in ENUMS):
                        continue
                    body = [c for c in n.get('inner', []) or [] if c.get('kind') == 'CompoundStmt']
                    if not body:
                        continue
                    seen.add(n['id'])
                    cls = None
                    for x in walk(body[0]):
                        if x.get('kind') == 'CXXThisExpr':
                            cls = x['type']['qualType'].replace('const ', '').replace('nifly::', '').rstrip('* ').strip()
                            break
                    if cls is None:
                        continue
                    self.cur_file = n.get('loc', {}).get('file') or os.path.join(driver.REPO, tu)
                    sl = Slice(cls, name, tu, n.get('loc', {}).get('line'))
                    self.walk_stmt(body[0], [], {}, sl, mode)
                    out.append(sl)
        return out


class CGen:
    """renders guards over shared symbols"""

    def __init__(self, slicer):
        self.S = slicer
        self.syms = OrderedDict()      # C name -> C type
        self.opaque = OrderedDict()    # text -> C name

    def sym(self, name, ty='uint32_t'):
        name = re.sub(r'\W+', '_', name)
        self.syms.setdefault(name, ty)
        return name

    def opq(self, text):
        text = re.sub(r'\s+', ' ', text or '?')
        if text not in self.opaque:
            self.opaque[text] = 'c_%d' % len(self.opaque)
            self.syms[self.opaque[text]] = '_Bool'
        return self.opaque[text]

    def e(self, n, cls, env):
        k = n.get('kind')
        I = n.get('inner', []) or []
        if k in ('ImplicitCastExpr', 'ParenExpr', 'ExprWithCleanups', 'MaterializeTemporaryExpr', 'CXXBindTemporaryExpr', 'ConstantExpr', 'CXXFunctionalCastExpr', 'CXXStaticCastExpr', 'CStyleCastExpr'):
            return self.e(I[-1], cls, env)
        if k == 'IntegerLiteral':
            return n['value'] + ('u' if 'unsigned' in n['type']['qualType'] else '')
        if k == 'CXXBoolLiteralExpr':
            return '1' if n['value'] else '0'
        if k == 'BinaryOperator' and n['opcode'] in ('&&', '||', '==', '!=', '<', '<=', '>', '>=', '+', '-', '&', '|'):
            return '(%s %s %s)' % (self.e(I[0], cls, env), n['opcode'], self.e(I[1], cls, env))
        if k == 'UnaryOperator' and n['opcode'] == '!':
            return '(!%s)' % self.e(I[0], cls, env)
        if k == 'DeclRefExpr':
            rd = n.get('referencedDecl', {})
            if rd.get('kind') == 'EnumConstantDecl':
                v = driver.enum_value_from_ast('src/BasicTypes.cpp', n['type']['qualType'], rd['name'])
                if v is None:
                    for tu in TUS:
                        v = driver.enum_value_from_ast(tu, n['type']['qualType'], rd['name'])
                        if v is not None:
                            break
                if v is not None:
                    return str(v) + 'u'
            if ('idx', rd.get('id')) in env:
                return 'gh_i'
            if rd.get('id') in self.S.local_init:
                return self.e(self.S.local_init[rd['id']], cls, env)
        if k == 'MemberExpr':
            p = self.S.path(n, env)
            if p is not None and '[]' not in p:
                ty = n['type']['qualType']
                cty = {'bool': '_Bool', 'uint8_t': 'uint8_t', 'uint16_t': 'uint16_t', 'uint32_t': 'uint32_t', 'int': 'int', 'int32_t': 'int', 'uint64_t': 'uint64_t', 'unsigned char': 'uint8_t', 'unsigned short': 'uint16_t', 'unsigned int': 'uint32_t'}.get(ty.replace('const ', ''))
                if cty:
                    return self.sym('m_%s_%s' % (cls, p), cty)
        if k == 'CXXMemberCallExpr' and I and I[0].get('kind') == 'MemberExpr':
            nm = I[0].get('name')
            obj = I[0]['inner'][0]
            if nm in ('File', 'User', 'Stream') and not I[1:]:
                return self.sym('ver_' + nm.lower())
            if nm in ('size', 'GetSize') and not I[1:]:
                p = self.S.path(obj, env)
                if p is not None:
                    return self.sym('sz_%s_%s' % (cls, p.replace('[]', '_elem')), 'uint32_t')
            if nm == 'empty' and not I[1:]:
                p = self.S.path(obj, env)
                if p is not None:
                    return '(%s == 0)' % self.sym('sz_%s_%s' % (cls, p.replace('[]', '_elem')), 'uint32_t')
        return self.opq(self.S.text(n))

    def guard(self, g, cls, env_idx):
        if g[0] == 'cond':
            c = self.e(g[1], cls, env_idx)
            return c if g[2] else '(!%s)' % c
        if g[0] == 'range':
            return '(gh_i < %s)' % self.sym('sz_%s_%s' % (cls, g[1].replace('[]', '_elem')), 'uint32_t')
        if g[0] == 'counted':
            return '(gh_i < %s)' % self.e(g[1], cls, env_idx)
        return self.opq(g[1])


def is_container_of_refs(tstr):
    t = tstr.replace('nifly::', '').replace('const ', '')
    return bool(re.match(r'^(std::vector|NiSyncVector|NiVector|NiStringRefVector)<', t.strip()))


_BASES = None


def base_of(cls):
    """direct base class of a nifly class.  Read from the class heads in include/*.hpp (`class X : public NiCloneableStreamable<X, Base>`
    or `class X : public Base`); the enumerator slices themselves come from the AST -- this map only tells where to look next."""
    global _BASES
    if _BASES is None:
        _BASES = {}
        inc = os.path.join(driver.REPO, 'include')
        for f in sorted(os.listdir(inc)):
            if not f.endswith('.hpp'):
                continue
            txt = open(os.path.join(inc, f), errors='replace').read()
            for m in re.finditer(r'\b(?:class|struct)\s+(\w+)\s*(?:final\s*)?:\s*public\s+([^{;]+?)\s*\{', txt):
                name, bt = m.group(1), m.group(2).strip()
                mm = re.match(r'^NiCloneable(?:Streamable)?<\s*[\w:<>]+\s*,\s*([\w:<>]+)\s*>', bt)
                b = mm.group(1) if mm else bt.split(',')[0].strip()
                _BASES[name] = re.sub(r'<.*>$', '', b).split('::')[-1]
    return _BASES.get(cls.split('::')[-1])


def canonical(events):
    """iterating over ALL elements of X and touching the element == touching X as a whole"""
    out = []
    for (p, how, guards) in events:
        g2 = list(guards)
        changed = True
        while changed:
            changed = False
            for g in list(g2):
                if g[0] == 'range' and (p == g[1] + '[]' or p.startswith(g[1] + '[].')):
                    p = g[1] + p[len(g[1]) + 2:]
                    g2.remove(g)
                    changed = True
        out.append((p, how, g2))
    return out


def build(workdir):
    """returns (C text, obligations list, report dict)"""
    S = Slicer()
    slices = []
    for tu in TUS:
        slices += S.slices_of_tu(tu)
    sync = {}
    enum = defaultdict(dict)
    for sl in slices:
        sl.events = canonical(sl.events)
        if sl.method == 'Sync':
            sync[sl.cls] = sl
        else:
            enum[sl.cls][ENUMS[sl.method]] = sl
    enum_classes = {c: set(k.keys()) for c, k in enum.items()}

    def ref_events(cls, depth=0):
        """(path, kinds-description, guards) of everything reference-bearing that cls::Sync serialises; nested structs WITHOUT
        enumerators of their own are expanded in place"""
        out = []
        sl = sync.get(cls)
        if sl is None or depth > 3:
            return out
        for (p, ty, guards) in sl.events:
            if ref_kinds(ty) is not None:
                out.append((p, 'blk' if ref_kinds(ty) != {'strs'} else 'strs', 'reference', guards))
                continue
            c = class_of_type(ty)
            if c in enum_classes:
                for k in sorted(enum_classes[c]):
                    out.append((p, {'refs': 'blk', 'ptrs': 'blk', 'idx': 'idx', 'strs': 'strs'}[k] if k != 'idx' else 'idxcall', 'struct ' + c, guards))
                continue
            if c in sync and c != cls:
                nested_structs.add(c)
                elem = '[]' if is_container_of_refs(ty) else ''
                for (q, kk, what, g2) in ref_events(c, depth + 1):
                    out.append((p + elem + '.' + q, kk, what + ' in ' + c, guards + g2))
        return out
    nested_structs = set()
    for cls in list(sync):
        ref_events(cls)

    def find_enum(cls, kinds_wanted, path):
        """events on `path` in the enumerators (of the wanted kinds) of cls or its ancestors; returns (found events, enumerator slices looked at)"""
        found = []
        looked = []
        c = cls
        hops = 0
        while c and hops < 12:
            for k in kinds_wanted:
                en = enum.get(c, {}).get(k)
                if en is not None:
                    looked.append(en)
                    for (ep, how, eg) in en.events:
                        if ep == path:
                            found.append((en, k, how, eg))
            c = base_of(c)
            hops += 1
        return found, looked
    G = CGen(S)
    obligations = []
    funcs = []
    unchecked = []
    for cls, sl in sorted(sync.items()):
        if cls in nested_structs and cls not in enum_classes:
            continue        # a plain struct: its references are obligations of the owning block
        if sl.unknown:
            unchecked.append({'class': cls, 'method': 'Sync', 'why': sorted(set(sl.unknown))[:4]})
        grouped = OrderedDict()
        for (p, kk, what, guards) in ref_events(cls):
            if kk == 'idxcall':
                continue
            grouped.setdefault((p, kk, what), []).append(guards)
        for (p, kk, what), occ in grouped.items():
            wanted = ['refs', 'ptrs'] if kk == 'blk' else ['strs']
            found, looked = find_enum(cls, wanted, p)
            fname = 'ob_%s__%s__%s' % (re.sub(r'\W+', '_', cls), re.sub(r'\W+', '_', p), kk)
            body = ['\t_Bool ser = 0, en = 0;']
            for guards in occ:
                env_idx = {('idx', g[2]): True for g in guards if g[0] == 'counted'}
                conds = [G.guard(g, cls, env_idx) for g in guards]
                if kk == 'strs':
                    # a string reference is an INDEX only when the file has a string table (file version >= 20.1.0.1)
                    conds.append('(%s >= 0x14010001u)' % G.sym('ver_file'))
                body.append('\tif (%s) ser = 1;   /* %s::Sync serialises %s */' % (' && '.join(conds) if conds else '1', cls, p))
            for (en, k, how, eg) in found:
                env_idx = {('idx', g[2]): True for g in eg if g[0] == 'counted'}
                conds = [G.guard(g, en.cls, env_idx) for g in eg]
                body.append('\tif (%s) en = 1;   /* %s::%s: %s */' % (' && '.join(conds) if conds else '1', en.cls, en.method, how))
            if not found:
                body.append('\t/* %s is not mentioned by any %s enumerator of %s or its base classes */' % (p, '/'.join(wanted), cls))
            for en in looked:
                if en.unknown:
                    unchecked.append({'class': en.cls, 'method': en.method, 'why': sorted(set(en.unknown))[:4]})
            body.append('\t__CPROVER_assert(!ser || en, "%s::%s (%s) is serialised => enumerated (%s)");' % (cls, p, what, '/'.join(wanted)))
            funcs.append((fname, body))
            obligations.append({'name': fname, 'class': cls, 'member': p, 'kind': kk, 'member_kind': what, 'enumerated_somewhere': bool(found), 'sync_at': '%s:%s' % (sl.tu, sl.line)})
            # a block reference reported by GetChildRefs must also be reported by GetChildIndices
            if kk == 'blk' and any(k == 'refs' for (_, k, _, _) in found):
                f2, _ = find_enum(cls, ['idx'], p)
                fname2 = fname + '_idx'
                body2 = ['\t_Bool ser = 0, en = 0;']
                for (en, k, how, eg) in found:
                    if k != 'refs':
                        continue
                    env_idx = {('idx', g[2]): True for g in eg if g[0] == 'counted'}
                    conds = [G.guard(g, en.cls, env_idx) for g in eg]
                    body2.append('\tif (%s) ser = 1;   /* reported by %s::GetChildRefs */' % (' && '.join(conds) if conds else '1', en.cls))
                for (en, k, how, eg) in f2:
                    env_idx = {('idx', g[2]): True for g in eg if g[0] == 'counted'}
                    conds = [G.guard(g, en.cls, env_idx) for g in eg]
                    body2.append('\tif (%s) en = 1;   /* %s::GetChildIndices: %s */' % (' && '.join(conds) if conds else '1', en.cls, how))
                body2.append('\t__CPROVER_assert(!ser || en, "%s::%s reported by GetChildRefs => reported by GetChildIndices");' % (cls, p))
                funcs.append((fname2, body2))
                obligations.append({'name': fname2, 'class': cls, 'member': p, 'kind': 'idx', 'member_kind': what, 'enumerated_somewhere': bool(f2), 'sync_at': '%s:%s' % (sl.tu, sl.line)})
    uniq = []
    for u in unchecked:
        if u not in uniq:
            uniq.append(u)
    unchecked = uniq
    # symbols are shared globals, havocked by the harness
    lines = ['/* GENERATED by tools/c05.py from the clang AST of %d translation units -- do not edit */' % len(TUS), '#include <stdint.h>', '#include <stddef.h>', 'uint32_t gh_i;']
    for nme, ty in G.syms.items():
        lines.append('%s %s;' % (ty, nme))
    for fname, body in funcs:
        lines.append('void %s(void)\n{\n%s\n}' % (fname, '\n'.join(body)))
    lines.append('void harness(void)\n{')
    lines.append('\t{ uint32_t nd; gh_i = nd; }')
    for nme, ty in G.syms.items():
        lines.append('\t{ %s nd; %s = nd; }' % (ty, nme))
    if 'ver_file' in G.syms:
        # PRECONDITION: only the file versions NifFile::Load accepts (NiVersion::IsOB/IsFO3/IsSK/IsSSE/IsFO4/IsFO76/IsSF/IsSpecial)
        lines.append('\t__CPROVER_assume(ver_file == 0x0A000100u || ver_file == 0x0A01006Au || ver_file == 0x0A020000u || ver_file == 0x14000004u || ver_file == 0x14000005u || ver_file == 0x14020007u);')
    for fname, _ in funcs:
        lines.append('\t%s();' % fname)
    lines.append('}')
    report = {'classes_with_sync': len(sync), 'classes_with_enumerators': len(enum_classes), 'plain_structs_expanded_into_owners': sorted(nested_structs - set(enum_classes)),
              'obligations': len(obligations), 'unchecked': unchecked, 'opaque_conditions': len(G.opaque), 'opaque_samples': list(G.opaque.keys())[:8]}
    return '\n'.join(lines) + '\n', obligations, report


if __name__ == '__main__':
    wd = os.path.join(driver.WORK, 'c05')
    os.makedirs(wd, exist_ok=True)
    txt, obs, rep = build(wd)
    open(os.path.join(wd, 'c05.c'), 'w').write(txt)
    print(json.dumps(rep, indent=1)[:3000])
    print(len(obs), 'obligations')


def run_check(tier='quick'):
    """returns a result dict shaped like driver.verify_unit's, one pseudo-unit for the whole slice"""
    import time
    wd = os.path.join(driver.WORK, 'c05')
    os.makedirs(wd, exist_ok=True)
    t0 = time.time()
    res = {'unit': 'C05_slice', 'status': 'undecided', 'obligations': 0, 'discharged': 0, 'failed': [], 'reason': '', 'solver_s': 0.0,
           'backend': 'sat', 'bounded': False, 'kind': 'slice', 'source': ', '.join(TUS), 'decl': 'Sync / GetChildRefs / GetChildIndices / GetPtrs / GetStringRefs of every class'}
    try:
        txt, obs, rep = build(wd)
    except ast2c.ExtractionBreak as e:
        res['reason'] = 'EXTRACTION-BREAK: %s' % e
        return res, [], {}
    cpath = os.path.join(wd, 'c05.c')
    open(cpath, 'w').write(txt)
    res['c_file'] = cpath
    if len(obs) < 50:
        res['reason'] = 'VACUITY: only %d obligations generated (the slicer lost the Sync bodies?)' % len(obs)
        return res, obs, rep
    gb = os.path.join(wd, 'c05.gb')
    rc, out, _ = driver.sh(['goto-cc', '--function', 'harness', cpath, '-o', gb], timeout=300)
    if rc != 0:
        res['reason'] = 'goto-cc failed on the generated slice:\n' + out[-2000:]
        return res, obs, rep
    r = driver.run_cbmc(gb, ['--trace'], [], 900)
    res['solver_s'] = r['secs']
    res['checker_cmd'] = r['cmd']
    open(os.path.join(wd, 'cbmc.log'), 'w').write(r['out'])
    results = r['results']
    res['obligations'] = len(results)
    res['discharged'] = sum(1 for v in results.values() if v[0] == 'SUCCESS')
    bad = [k for k, v in results.items() if v[0] == 'FAILURE']
    if r['verdict'] == 'proved' and res['obligations'] == res['discharged'] and res['obligations'] > 0:
        res['status'] = 'proved'
    elif bad:
        res['status'] = 'refuted'
        res['failed'] = [{'obligation': k, 'text': results[k][1]} for k in bad]
        res['reason'] = '%d obligation(s) refuted' % len(bad)
        res['cbmc_log'] = os.path.join(wd, 'cbmc.log')
    else:
        res['reason'] = 'no verdict from cbmc'
    res['samples'] = [{'obligation': k, 'text': v[1]} for k, v in list(results.items())[:4]]
    res['wall'] = time.time() - t0
    return res, obs, rep
