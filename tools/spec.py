#!/usr/bin/env python3
"""Side-car contract files (/verif/contracts/*.spec).

  == unit <c-name>                 one function (or fragment, or lemma) under contract
  key: value                       tu, filter, decl, sig, self, backend, uses, replace, flags, typemap, records, ...
  -- prelude                       C text before the function (ghost variables gh_*, macros, stub declarations)
  -- contract                      function contract clauses (spliced after the extracted signature)
  -- loop <n>                      loop contract of the n-th loop (source order) of the extracted body
  -- ghost <where> <n>             ghost statement(s) spliced at BEFORE-LOOP/IN-LOOP/END-LOOP/AFTER-LOOP n; may only assign gh_*
  -- body                          (lemma units only) hand-written body consisting of calls to functions under contract
  -- harness                       optional replacement harness body
"""
import os, re, glob


class SpecError(Exception):
    pass


LISTKEYS = {'uses', 'replace', 'flags', 'records', 'properties', 'enforce_extra', 'byref_types', 'identity_methods', 'token_types', 'zero_init_types', 'cellset_types', 'globals', 'enum_types', 'inline', 'allow_calls', 'partial_structs', 'expose', 'keep_params', 'base_uses', 'sz_loop_havoc'}
MAPKEYS = {'typemap', 'callmap', 'opmap', 'enums', 'membermap', 'subst', 'members', 'call_effects', 'abs_calls', 'instances', 'convmap', 'sz_cond_calls', 'sz_witness', 'sz_call_map'}


def parse_spec(path):
    units = []
    cur = None
    sec = None
    for ln, line in enumerate(open(path).read().split('\n'), 1):
        if line.startswith('== unit '):
            cur = {'name': line[8:].strip(), 'sections': {}, 'file': path, 'line': ln}
            units.append(cur)
            sec = None
            continue
        if line.startswith('== end'):
            cur = None
            sec = None
            continue
        if cur is None:
            if line.strip() and not line.startswith('#'):
                raise SpecError('%s:%d: text outside a unit' % (path, ln))
            continue
        if line.startswith('-- '):
            sec = line[3:].strip()
            cur['sections'][sec] = ''
            continue
        if sec is None:
            if not line.strip() or line.startswith('#'):
                continue
            m = re.match(r'^(\w+):\s*(.*)$', line)
            if not m:
                raise SpecError('%s:%d: expected key: value' % (path, ln))
            k, v = m.group(1), m.group(2).strip()
            if k in LISTKEYS:
                cur.setdefault(k, [])
                cur[k] += [x for x in re.split(r'[,\s]+', v) if x] if k not in ('records', 'enum_types') else [x.strip() for x in v.split(',') if x.strip()]
            elif k in MAPKEYS:
                cur.setdefault(k, {})
                for item in v.split(';'):
                    item = item.strip()
                    if not item:
                        continue
                    a, b = item.split('=>')
                    cur[k][a.strip()] = b.strip()
            else:
                cur[k] = v
        else:
            cur['sections'][sec] += line + '\n'
    return units


def load_all(specdir):
    units = OrderedUnits()
    for p in sorted(glob.glob(os.path.join(specdir, '*.spec'))):
        for u in parse_spec(p):
            if u['name'] in units:
                raise SpecError('duplicate unit ' + u['name'])
            units[u['name']] = u
    # `like: <unit>` -- inherit every section/key the unit does not define itself, after textual substitution (`subst:`)
    done = set()

    def resolve(u, stack=()):
        if u['name'] in done or 'like' not in u:
            done.add(u['name'])
            return
        if u['name'] in stack:
            raise SpecError('like-cycle at ' + u['name'])
        base = units.get(u['like'])
        if base is None:
            raise SpecError('unit %s is like unknown unit %s' % (u['name'], u['like']))
        resolve(base, stack + (u['name'],))
        own_contract = 'contract' in u['sections']
        same_fn = u.get('inherit_ghosts') == 'yes'      # another instantiation/call-site variant of the SAME function body
        for k, v in base['sections'].items():
            if own_contract and not same_fn and (k.startswith('loop ') or k.startswith('ghost ')):
                continue     # a different function: it brings its own loop contracts and ghost splices (or has none)
            if own_contract and same_fn and k.startswith('loop ') and any(x.startswith('loop ') for x in u['sections']):
                continue     # same body, own loop contracts; ghost splices it does not redefine are inherited
            if k not in u['sections']:
                for a, b in u.get('subst', {}).items():
                    v = v.replace(a, b)
                v = v.replace(base['name'], u['name'])
                u['sections'][k] = v
        for k in ('backend', 'flags', 'records', 'typemap', 'tu', 'filter', 'decl', 'records_tu', 'timeout', 'cost', 'self', 'callmap',
                  'enums', 'membermap', 'opmap', 'replace', 'uses', 'mode', 'kind', 'class', 'identity_methods', 'token_types',
                  'zero_init_types', 'cellset_types', 'globals', 'enum_types', 'inline', 'byref_types', 'unwind', 'cap', 'abstract', 'static', 'members', 'triage_cap', 'select_kind', 'select_mentions', 'select_excludes', 'select_pick', 'select_ops', 'through_kind', 'through_mentions', 'force_self', 'free_locals_nondet', 'string_as_vector',
                  'sz_cond_calls', 'sz_witness', 'sz_call_map', 'sz_loop_inv', 'sz_loop_havoc', 'sz_params'):
            if k not in u and k in base:
                u[k] = base[k]
        for k in list(base):
            if k.startswith('sz_loop_inv_') and k not in u:
                u[k] = base[k]
        done.add(u['name'])
    for u in units.values():
        resolve(u)
    return units


class OrderedUnits(dict):
    pass


GHOST_OK = re.compile(r'^\s*(gh_\w+(\[[^\]]*\])?\s*(=|\+=|-=)[^=]|if\s*\(|else|\{|\}|$|/[/*])')


def _strip_guard(s):
    s = s.strip()
    while True:
        if s.startswith('{') or s.startswith('}'):
            s = s[1:].strip()
            continue
        if s.startswith('else'):
            s = s[4:].strip()
            continue
        m = re.match(r'^if\s*\(', s)
        if m:
            depth = 0
            for k in range(m.end() - 1, len(s)):
                if s[k] == '(':
                    depth += 1
                elif s[k] == ')':
                    depth -= 1
                    if depth == 0:
                        s = s[k + 1:].strip()
                        break
            else:
                return s
            continue
        return s


def check_ghost_text(txt, unitname):
    """ghost splices may only assign gh_* variables (syntactic check; the assigns clauses check it semantically)"""
    txt = re.sub(r'/\*.*?\*/', '', txt, flags=re.S)
    for st in re.split(r'[;\n]', txt):
        s = _strip_guard(st)
        if not s or s.startswith('//'):
            continue
        if not re.match(r'^((const\s+)?\w+\s+\*?\s*)?gh_\w+(\[[^\]]*\])?\s*(=[^=]|\+=|-=|\+\+|--)', s) and not s.startswith('__CPROVER_assert'):
            raise SpecError('unit %s: ghost text assigns something that is not gh_*: %r' % (unitname, st))
