#!/bin/bash
# usage: run_seed.sh <seed-dir-name> <PROP> [extra check args]  -- apply a seeded change to /repo, run the check, undo it
S=/verif/seeded/$1; P=$2; shift 2
cd /repo && git status --porcelain --untracked-files=no | grep -q . && { echo "/repo not clean"; exit 9; }
git -C /repo apply $S/patch.diff || exit 9
cd /verif && timeout 3000 ./check $P "$@"; rc=$?
git -C /repo checkout -- .
echo "SEED $(basename $S) PROP $P rc=$rc"
