#!/bin/bash
# usage: confirm_seed.sh <outdir-with-patch.diff-and-demo.cpp> <seed-id>
# Confirms a sub-agent's change myself: clean scratch worktree of /repo HEAD + patch -> builds, 28 tests pass, demo exits non-zero
# against the patched library and 0 against the pristine one (/repo/_build, rebuilt first).  Keeps it as /verif/seeded/<seed-id>/.
O=$1; ID=$2; W=/tmp/confirm/$ID
rm -rf $W; mkdir -p /tmp/confirm
git -C /repo worktree add --detach $W HEAD -q || exit 9
git -C $W apply $O/patch.diff || { echo "patch does not apply"; git -C /repo worktree remove --force $W; exit 1; }
(cmake -G Ninja -S $W -B $W/_build -DCMAKE_BUILD_TYPE=Release > /dev/null && cmake --build $W/_build -j 12 2>&1 | tail -1) || { echo "build failed"; exit 1; }
T=$(ctest --test-dir $W/_build -j8 --timeout 900 2>&1 | grep "tests passed")
echo "tests with patch: $T"
cmake --build /repo/_build -j 12 2>&1 | tail -1
g++ -std=c++17 -O1 -I$W/include -I$W/external $O/demo.cpp $W/_build/src/libnifly.a -o $W/demo_patched 2>&1 | tail -2
g++ -std=c++17 -O1 -I/repo/include -I/repo/external $O/demo.cpp /repo/_build/src/libnifly.a -o $W/demo_pristine 2>&1 | tail -2
(cd $W && timeout 600 ./demo_patched > $W/patched.out 2>&1); RP=$?
(cd /repo && timeout 600 $W/demo_pristine > $W/pristine.out 2>&1); R0=$?
echo "demo_pristine_rc=$R0 demo_patched_rc=$RP"
if echo "$T" | grep -q "100% tests passed" && [ "$R0" = "0" ] && [ "$RP" != "0" ]; then
  D=/verif/seeded/$ID; mkdir -p $D; cp $O/patch.diff $O/demo.cpp $D/; [ -f $O/README.md ] && cp $O/README.md $D/
  python3 - "$D" "$ID" "$RP" <<'PY'
import sys,json,re
d,i,rp=sys.argv[1:4]
files=re.findall(r'^\+\+\+ b/(\S+)', open(d+'/patch.diff').read(), re.M)
json.dump({'property': i.split('-')[0], 'files_touched': files, 'needs_to_manifest': 'see README.md (written by the sub-agent that produced the change)',
 'origin': 'fresh sub-agent given only the property record and a scratch worktree; nothing from /verif',
 'confirmed_by_me': {'what_i_ran': 'tools/confirm_seed.sh: clean scratch worktree of /repo HEAD + patch.diff; cmake --build; ctest (28 tests); demo.cpp against the patched and the pristine libnifly.a', 'tests_with_patch': '100% passed (28)', 'demo_pristine_rc': 0, 'demo_patched_rc': int(rp)},
 'detected_by': 'TBD'}, open(d+'/meta.json','w'), indent=1)
PY
  echo "KEPT $D"
else
  echo "NOT CONFIRMED"
fi
git -C /repo worktree remove --force $W; rm -rf $W
