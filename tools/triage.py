#!/usr/bin/env python3
"""
triage -- from a REFUTED obligation to a report (DESIGN.md 3.5).

1. loop-free unit: the SAT/SMT procedure is complete on it; the refutation stands; the trace is the failing input.
2. unit with loop contracts: re-check the function contract WITHOUT the loop contracts (capacity BCAP, loops unwound with
   unwinding assertions, SAT).  This run does not depend on my invariants:
      passes -> the proof no longer goes through but the contract holds up to the bound  => UNDECIDED (exit 2), never an alarm
      fails  -> concrete counterexample                                                   => VIOLATION
3. if the unit names a native replay program, the counterexample values are handed to it; it drives the REAL code
   (built from /repo's working tree with ASan/UBSan) and evaluates the property natively.
"""
import os, re, json, time, subprocess, shutil
import driver, spec as specmod
from ast2c import ExtractionBreak

VERIF = driver.VERIF
BCAP = 4


def write_replay(prop, unit, res, body):
    d = os.path.join(driver.WORK, 'replay')
    os.makedirs(d, exist_ok=True)
    path = os.path.join(d, '%s_%s.txt' % (prop, unit['name']))
    with open(path, 'w') as f:
        f.write('property: %s\nunit: %s\nsource: %s  decl: %s  signature: %s\n' % (prop, unit['name'], unit.get('tu'), unit.get('decl'), unit.get('sig')))
        f.write('failed obligations (refuted by the back end):\n')
        for fo in res.get('failed', []):
            f.write('  %s -- %s\n' % (fo['obligation'], fo['text']))
        f.write('\n' + body)
    return path


def trace_values(out):
    """pull `name=value` state lines out of a textual CBMC trace"""
    vals = []
    for m in re.finditer(r'^\s{2}([A-Za-z_][\w\.\[\]>\-]*)=(.*?)(?: \([01 ]+\))?$', out, re.M):
        vals.append((m.group(1), m.group(2)))
    return vals


def bounded_recheck(unit, units, outdir):
    global BCAP
    BCAP = int(unit.get('triage_cap', 4))
    """contract without loop contracts, capacity BCAP, unwinding; returns (verdict, log)"""
    has_ghost = any(k.startswith('ghost ') for k in unit['sections'])
    if unit.get('abstract') == 'sizes':
        # size/witness abstraction with invariant-abstracted loops: re-check with the loops AS LOOPS (no invariant of mine involved),
        # explored up to a small unwinding bound without unwinding assertions -- a counterexample found this way is a real path of
        # the abstraction; none found means undecided
        u = dict(unit)
        u['sz_concrete_loops'] = True
        for k_ in [k_ for k_ in u if k_.startswith('sz_loop_inv')]:
            u.pop(k_)
        try:
            b = driver.build_c(u, units, outdir)
        except (ExtractionBreak, specmod.SpecError) as e:
            return 'undecided', 'bounded build failed: %s' % e
        inst, err = driver.instrument(u, units, b, outdir, tag='.bounded')
        if err:
            return 'undecided', err
        flags = driver.check_flags(u) + ['--unwind', '4', '--no-unwinding-assertions', '--object-bits', '12', '--trace']
        r = driver.run_cbmc(inst['gb'], flags, [], timeout=600)
        if r['verdict'] == 'refuted' and not [k for k, v in r['results'].items() if v[0] == 'FAILURE' and '.unwind.' not in k]:
            return 'undecided', 'bounded re-check: only unwinding assertions fail\n' + r['out'][-3000:]
        return r['verdict'], r['out']
    for drop_ghost in (False, True):
        u = dict(unit)
        u['sections'] = {k: v for k, v in unit['sections'].items() if not k.startswith('loop ') and not (drop_ghost and k.startswith('ghost '))}
        u['unwind'] = str(BCAP + 2)
        u.pop('cap', None)
        try:
            b = driver.build_c(u, units, outdir, defines=['#define CAP %d' % BCAP, '#define BOUNDED 1', '#define SHIM_IMPL 1'])
        except ExtractionBreak as e:
            if not drop_ghost and has_ghost and 'no matching place' in str(e):
                continue      # loop structure changed: the ghost splices do not attach any more
            return 'undecided', 'bounded build failed: %s' % e
        except specmod.SpecError as e:
            return 'undecided', 'bounded build failed: %s' % e
        inst, err = driver.instrument(u, units, b, outdir, tag='.bounded')
        if err:
            return 'undecided', err
        flags = driver.check_flags(u) + ['--trace']
        if not any('write_set_check_assigns_clause_inclusion' in f for f in flags):
            flags += ['--unwindset', '__CPROVER_contracts_write_set_check_assigns_clause_inclusion.0:64']
        r = driver.run_cbmc(inst['gb'], flags, [], timeout=600)
        if r['verdict'] == 'refuted':
            real = [k for k, v in r['results'].items() if v[0] == 'FAILURE' and '.unwind.' not in k]
            if not real:
                # only unwinding assertions fail: the bound is too small for this body, nothing is known
                return 'undecided', 'bounded re-check: only unwinding assertions fail (bound %d too small)\n' % (BCAP + 2) + r['out'][-3000:]
        if drop_ghost and r['verdict'] == 'refuted':
            # without the ghost bookkeeping, postconditions over ghost outputs are meaningless: only safety obligations count
            bad = [k for k, v in r['results'].items() if v[0] == 'FAILURE' and 'postcondition' not in k]
            if not bad:
                return 'undecided', 'loop structure changed; bounded re-check without ghost bookkeeping finds no safety violation (postconditions over ghost outputs cannot be evaluated)\n' + r['out'][-3000:]
        return r['verdict'], r['out']
    return 'undecided', 'bounded build failed'


def SEARCH_ONLY(unit):
    """hdr_native does not replay the verifier's counterexample: it is a small-scope search over models that the public API can build
    (no corrupted type indices, no hand-made header state).  When it finds nothing, nothing is known about a counterexample that
    needs such a state, so a clean run does NOT demote the refutation (the decision procedure is complete on the extracted text);
    c18_native enumerates the whole scope of the counterexample sizes and does demote."""
    return (unit.get('replay') or '').split()[:1] in (['hdr_native'], ['c13_native'], ['nvd_native'])


def native_replay(unit, prop, values, outdir):
    prog = unit.get('replay')
    if not prog:
        return None
    import replay
    r = replay.run(unit, prop, values, outdir)
    if r and r['verdict'] == 'no-replay':
        return None
    return r


def triage(unit, units, res, prop, tier='quick'):
    outdir = os.path.join(driver.WORK, 'units', unit['name'], 'triage')
    shutil.rmtree(outdir, ignore_errors=True)
    os.makedirs(outdir, exist_ok=True)
    has_loops = any(k.startswith('loop ') for k in unit['sections']) or (unit.get('abstract') == 'sizes' and any(k.startswith('sz_loop_inv') for k in unit))
    verdict = blog = None
    log = ''
    if res.get('cbmc_log') and os.path.exists(res['cbmc_log']):
        log = open(res['cbmc_log']).read()
    if not has_loops and res.get('only_unknown'):
        # the SMT back end answers `unknown` instead of `sat` when quantified assumptions (sortedness, shim contracts) are present;
        # the bounded re-check (quantifier-free forms, SAT) decides whether there is a concrete counterexample
        verdict, blog = bounded_recheck(unit, units, outdir)
        if verdict != 'refuted':
            path = write_replay(prop, unit, res, 'loop-free unit but the back end gave no verdict; bounded re-check: %s\n' % verdict + log[-8000:])
            return {'verdict': 'undecided', 'replay': path, 'reason': 'back end gave no verdict on a loop-free unit (bounded re-check: %s)' % verdict}
        has_loops = True   # fall through to the common path with the bounded counterexample
    if not has_loops:
        # complete procedure; fetch a trace for the refuted obligations
        inst_gb = os.path.join(driver.WORK, 'units', unit['name'], unit['name'] + '.i.gb')
        tr = driver.run_cbmc(inst_gb, driver.check_flags(unit), driver.backend_flags(unit), 600,
                             props=[f['obligation'] for f in res['failed'][:3]], trace=True)
        vals = trace_values(tr['out'])
        nat = native_replay(unit, prop, vals, outdir)
        body = 'unit is loop-free: the decision procedure is complete on it, the refutation stands.\n'
        if nat:
            body += '\nNATIVE REPLAY against the real code: %s\n%s\n' % (nat['verdict'], nat['log'][-4000:])
            if nat['verdict'] == 'clean' and not SEARCH_ONLY(unit):
                path = write_replay(prop, unit, res, body + '\nverifier output:\n' + tr['out'][-20000:])
                return {'verdict': 'undecided', 'replay': path,
                        'reason': 'extraction-fidelity: verifier counterexample does not reproduce on the real code (see %s)' % path}
        path = write_replay(prop, unit, res, body + '\nverifier output with counterexample trace:\n' + tr['out'][-30000:])
        # an abstracting rendering (frame / guard / size units) yields a PATH through the function, not an input of the real code
        has_input = (bool(vals) or ('Trace for' in tr['out'])) and not unit.get('abstract')
        return {'verdict': 'violation', 'replay': ((nat or {}).get('file') if (nat or {}).get('verdict') == 'reproduced' else None) or path, 'failing_input': has_input, 'reason': 'refuted (loop-free)'}
    if blog is None:
        verdict, blog = bounded_recheck(unit, units, outdir)
    if verdict == 'proved':
        path = write_replay(prop, unit, res, 'invariant-independent bounded re-check (capacity %d, loops unwound, unwinding assertions): PASSED\n'
                            '=> the proof no longer goes through, but the function contract holds up to the bound: UNDECIDED, not a violation.\n\n'
                            'verifier output of the contract run:\n%s' % (BCAP, log[-20000:]))
        return {'verdict': 'undecided', 'replay': path,
                'reason': 'proof no longer goes through (%s); contract holds up to capacity %d without my loop invariants -- see %s' % (
                    ', '.join(f['obligation'] for f in res['failed'][:4]), BCAP, path)}
    if verdict == 'refuted':
        vals = trace_values(blog)
        nat = native_replay(unit, prop, vals, outdir)
        body = 'invariant-independent bounded re-check (capacity %d, loops unwound): FAILED -- concrete counterexample below.\n' % BCAP
        if nat:
            body += '\nNATIVE REPLAY against the real code: %s\n%s\n' % (nat['verdict'], nat['log'][-4000:])
            if nat['verdict'] == 'clean' and not SEARCH_ONLY(unit):
                path = write_replay(prop, unit, res, body + '\nverifier output:\n' + blog[-20000:])
                return {'verdict': 'undecided', 'replay': path,
                        'reason': 'extraction-fidelity: verifier counterexample does not reproduce on the real code (see %s)' % path}
        failed_b = [l for l in blog.split('\n') if l.rstrip().endswith('FAILURE')]
        for l in failed_b[:6]:
            m = re.match(r'^\[([^\]]+)\]\s+(.*): FAILURE', l.strip())
            if m:
                res['failed'].append({'obligation': m.group(1) + ' [bounded re-check, capacity %d]' % BCAP, 'text': m.group(2)})
        path = write_replay(prop, unit, res, body + '\nobligations failing in the bounded run:\n' + '\n'.join(failed_b[:20]) +
                            '\n\nverifier output with counterexample trace:\n' + blog[-30000:])
        if nat and nat.get('file') and nat.get('verdict') == 'reproduced':
            # one replay artefact: the native reproduction, followed by the verifier's side
            open(nat['file'], 'a').write('\n\n==== verifier side ====\n' + open(path).read())
        return {'verdict': 'violation', 'replay': ((nat or {}).get('file') if (nat or {}).get('verdict') == 'reproduced' else None) or path, 'failing_input': not unit.get('abstract'), 'reason': 'refuted; bounded re-check gives a counterexample'}
    path = write_replay(prop, unit, res, 'bounded re-check gave no verdict:\n' + blog[-8000:])
    return {'verdict': 'undecided', 'replay': path, 'reason': 'refuted under loop contracts, bounded re-check undecided'}
