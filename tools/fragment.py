#!/usr/bin/env python3
"""
fragment -- extraction of ONE statement subtree of a large function (the mode-dependent pieces of Sync bodies), selected by an
AST predicate, never by line numbers (DESIGN.md 3.1):

   select_kind:      statement kind (IfStmt, ForStmt, CompoundStmt, BinaryOperator ...)
   select_mentions:  comma list of names (members / variables / callee names) that must ALL occur in the subtree
   select_excludes:  comma list of names that must NOT occur
   select_pick:      smallest | largest | <n>  (default: smallest matching subtree must be unique)

Zero matches or an ambiguous match -> ExtractionBreak (exit 2).  Free variables of the subtree (locals and parameters of the
enclosing function) become by-reference parameters; `this` becomes the self struct.
"""
import re
from ast2c import Printer, ExtractionBreak, walk, find_function, Types


def names_in(n):
    out = set()
    for x in walk(n):
        k = x.get('kind')
        if k == 'MemberExpr' and x.get('name'):
            out.add(x['name'])
        elif k == 'DeclRefExpr':
            out.add(x.get('referencedDecl', {}).get('name'))
        elif k == 'VarDecl' and x.get('name'):
            out.add(x['name'])
    return out


def size_of(n):
    return sum(1 for _ in walk(n))


def render_fragment(unit, docs, types):
    fn = find_function(docs, unit)
    body = [c for c in fn['inner'] if c.get('kind') == 'CompoundStmt'][0]
    kind = unit.get('select_kind', 'IfStmt')
    must = [x.strip() for x in unit.get('select_mentions', '').split(',') if x.strip()]
    mustnot = [x.strip() for x in unit.get('select_excludes', '').split(',') if x.strip()]
    cands = []
    for n in walk(body):
        if n.get('kind') != kind:
            continue
        nm = names_in(n)
        ops = [x.strip() for x in unit.get('select_ops', '').split() if x.strip()]
        have = {x.get('opcode') for x in walk(n) if x.get('kind') in ('BinaryOperator', 'CompoundAssignOperator', 'UnaryOperator')}
        if all(m in nm for m in must) and not any(m in nm for m in mustnot) and all(o in have for o in ops):
            cands.append(n)
    if not cands:
        raise ExtractionBreak('fragment %s: no %s mentioning %s in %s' % (unit['name'], kind, must, unit['decl']))
    pick = unit.get('select_pick', 'smallest')
    cands.sort(key=size_of)
    if pick == 'smallest':
        if len(cands) > 1 and size_of(cands[0]) == size_of(cands[1]):
            raise ExtractionBreak('fragment %s: ambiguous (%d smallest matches)' % (unit['name'], len(cands)))
        sel = cands[0]
    elif pick == 'largest':
        if len(cands) > 1 and size_of(cands[-1]) == size_of(cands[-2]):
            raise ExtractionBreak('fragment %s: ambiguous (%d largest matches)' % (unit['name'], len(cands)))
        sel = cands[-1]
    else:
        i = int(pick)
        if i >= len(cands):
            raise ExtractionBreak('fragment %s: only %d matches' % (unit['name'], len(cands)))
        sel = cands[i]
    span = [sel]
    if unit.get('through_kind'):
        # a run of consecutive sibling statements: from the selected statement through the first later sibling matching the
        # second predicate (through_kind / through_mentions)
        tm = [x.strip() for x in unit.get('through_mentions', '').split(',') if x.strip()]
        parent = None
        for n in walk(body):
            if n.get('kind') == 'CompoundStmt' and any(c is sel for c in n.get('inner', []) or []):
                parent = n
        if parent is None:
            raise ExtractionBreak('fragment %s: selected statement is not a direct child of a block' % unit['name'])
        sib = parent['inner']
        i0 = [k for k, c in enumerate(sib) if c is sel][0]
        j0 = None
        for k in range(i0 + 1, len(sib)):
            if sib[k].get('kind') == unit['through_kind'] and all(m in names_in(sib[k]) for m in tm):
                j0 = k
                break
        if j0 is None:
            raise ExtractionBreak('fragment %s: no later sibling %s mentioning %s' % (unit['name'], unit['through_kind'], tm))
        span = sib[i0:j0 + 1]
    if unit.get('select_from_block_start'):
        # the run of statements from the START of the enclosing block through the selected statement: whatever the block does to
        # set up the selected statement's state (declarations, clear() calls) is part of the fragment, however it is written
        parent = None
        for n in walk(body):
            if n.get('kind') == 'CompoundStmt' and any(c is sel for c in n.get('inner', []) or []):
                parent = n
        if parent is None:
            raise ExtractionBreak('fragment %s: selected statement is not a direct child of a block' % unit['name'])
        sib = parent['inner']
        i0 = [k for k, c in enumerate(sib) if c is sel][0]
        span = sib[0:i0 + 1]
    p = Printer(types, unit)
    p.fragment = True
    # locals declared inside the fragment are local; everything else referenced is free
    for st_ in span:
        for x in walk(st_):
            if x.get('kind') == 'VarDecl':
                p.local_ids.add(x['id'])
    # pointer-typed variables of the enclosing function that the fragment never assigns are passed by value
    assigned = set()
    for st_ in span:
        for x in walk(st_):
            if x.get('kind') in ('BinaryOperator', 'CompoundAssignOperator') and x.get('opcode', '').endswith('=') and x.get('opcode') not in ('==', '!=', '<=', '>='):
                l = x['inner'][0]
                if l.get('kind') == 'DeclRefExpr':
                    assigned.add(l['referencedDecl']['id'])
            if x.get('kind') == 'UnaryOperator' and x.get('opcode') in ('++', '--') and x['inner'][0].get('kind') == 'DeclRefExpr':
                assigned.add(x['inner'][0]['referencedDecl']['id'])
    for st_ in span:
        for x in walk(st_):
            if x.get('kind') == 'DeclRefExpr' and x.get('referencedDecl', {}).get('kind') in ('VarDecl', 'ParmVarDecl'):
                rd = x['referencedDecl']
                if rd['id'] not in p.local_ids and rd['id'] not in assigned and Types.strip(rd.get('type', {}).get('qualType', '')).endswith('*'):
                    p.byval_free.add(rd['id'])
    txt = ''.join(p.st(st_, 1) for st_ in span)
    params = []
    uses_self = 'self->' in txt or 'self)' in txt or re.search(r'\bself\b', txt)
    if uses_self or unit.get('force_self'):
        if not unit.get('self'):
            raise ExtractionBreak('fragment %s uses this but has no self struct name' % unit['name'])
        params.append('%s *self' % unit['self'])
    locals_txt = ''
    # canonical parameter order (by name): independent of the order in which the statements happen to mention the variables
    for did, (nm, ct) in sorted(p.freevars.items(), key=lambda kv: kv[1][0]):
        if unit.get('free_locals_nondet') and p.freevar_kind.get(did) == 'VarDecl':
            # a local of the enclosing function: inside the fragment an arbitrary value whose updates are not observable
            locals_txt += '\t%s %s_v; %s *%s = &%s_v;\n' % (ct, nm, ct, nm, nm)
            p.fire('fragment:enclosing-local-as-nondet-local')
        elif did in p.byval_free:
            params.append('%s %s' % (ct, nm))
        else:
            params.append('%s *%s' % (ct, nm))
    for nm, ct in sorted(p.exposed.items()):
        params.append('%s *%s' % (ct, nm))
    txt = locals_txt + txt
    sig = 'void %s(%s)' % (unit['name'], ', '.join(params) if params else 'void')
    p.fire('fragment:selected')
    line = sel.get('range', {}).get('begin', {}).get('line') or sel.get('range', {}).get('begin', {}).get('expansionLoc', {}).get('line')
    return {'sig': sig, 'body': '{\n' + txt + '}\n', 'printer': p, 'ret': 'void', 'params': params,
            'line': line, 'file': fn.get('loc', {}).get('file')}
