#!/bin/bash
# Mutation self-test (DESIGN.md 3.6): every seeded change that the checks are recorded to catch (seeded/results.json) is applied to a
# scratch worktree of /repo HEAD and the matching check must report it again; the ones recorded as UNDECIDED must stay exit 2.
# Not a registered check: it never touches /repo or /verif/evidence.  usage: tools/selftest.sh [seed ...]
cd /verif
python3 - "$@" <<'PY' > /tmp/selftest_plan.$$
import json,sys
r=json.load(open('/verif/seeded/results.json'))
want=sys.argv[1:]
for k,v in sorted(r.items()):
    if want and k not in want: continue
    if v['outcome'] in ('VIOLATION','UNDECIDED (exit 2)'):
        print(k, v['check'].split()[-1], {'VIOLATION':1}.get(v['outcome'],2), v.get('units') or '-')
PY
bad=0
while read seed prop want units; do
  if [ "$units" = "-" ]; then out=$(timeout 3000 tools/seedrun.sh $seed $prop < /dev/null 2>&1); else out=$(timeout 3000 tools/seedrun.sh $seed $prop --only $units < /dev/null 2>&1); fi
  rc=$(echo "$out" | grep -a -o "SEED $seed PROP $prop rc=[0-9A-Z-]*" | sed 's/.*rc=//')
  if [ "$rc" = "$want" ]; then echo "ok    $seed $prop exit=$rc"; else echo "DRIFT $seed $prop exit=$rc expected=$want"; bad=1; fi
done < /tmp/selftest_plan.$$
rm -f /tmp/selftest_plan.$$
exit $bad
