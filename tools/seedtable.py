#!/usr/bin/env python3
"""regenerates the seed table of DESIGN.md section 9.5 from seeded/results.json (+ files_touched of each seed's meta.json)"""
import json, os, re
V = os.path.dirname(os.path.dirname(os.path.abspath(__file__)))
r = json.load(open(os.path.join(V, 'seeded', 'results.json')))
rows = ['| seed | files | outcome of `./check <property>` | failing obligation / reason |', '|---|---|---|---|']
for k in sorted(r):
    mp = os.path.join(V, 'seeded', k, 'meta.json')
    files = ', '.join(json.load(open(mp)).get('files_touched', [])) if os.path.exists(mp) else '(seed directory not kept)'
    rows.append('| %s | %s | %s | %s |' % (k, files, r[k]['outcome'], r[k]['detail'].replace('|', '/').replace('\n', ' ')))
p = os.path.join(V, 'DESIGN.md')
s = open(p).read()
m = re.search(r'\| seed \| files \|.*?\n(?=\n)', s, re.S)
s = s[:m.start()] + '\n'.join(rows) + '\n' + s[m.end():]
open(p, 'w').write(s)
n = len(r)
print(n, 'seeds;', sum(1 for v in r.values() if v['outcome'] == 'VIOLATION'), 'violation;', sum(1 for v in r.values() if v['outcome'].startswith('UNDEC')), 'undecided;',
      sum(1 for v in r.values() if v['outcome'] == 'missed'), 'missed')
