#!/bin/bash
# usage: seedrun.sh <seed> <PROP> [check args]   -- run a check against a scratch worktree of /repo with the seeded change applied
# (equivalent to applying the patch to /repo, but leaves /repo alone so that other work can go on; results are NOT evidence)
S=$1; P=$2; shift 2
WT=/tmp/seedrun/$S
rm -rf $WT /tmp/seedrun/work_$S; mkdir -p /tmp/seedrun
git -C /repo worktree add --detach $WT HEAD -q || exit 9
git -C $WT apply /verif/seeded/$S/patch.diff || { echo "SEED $S PROP $P rc=APPLY-FAILED"; git -C /repo worktree remove --force $WT; exit 9; }
cd /verif && NIFLY_REPO=$WT VERIF_WORK=/tmp/seedrun/work_$S VERIF_EVIDENCE_DIR=/tmp/seedrun/work_$S/evidence timeout 3000 ./check $P "$@"; rc=$?
mkdir -p /tmp/seedrun/replays; cp -r /tmp/seedrun/work_$S/replay /tmp/seedrun/replays/$S 2>/dev/null
git -C /repo worktree remove --force $WT; rm -rf /tmp/seedrun/work_$S
echo "SEED $S PROP $P rc=$rc"
