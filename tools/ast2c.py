#!/usr/bin/env python3
"""
ast2c -- mechanical extraction of real nifly function bodies into C for CBMC code contracts.

Input  : the clang JSON AST of the *real* translation unit in /repo's working tree
         (clang++ -fsyntax-only -Xclang -ast-dump=json -Xclang -ast-dump-filter=<name> <tu>)
Output : C text of the selected function (or of an AST-selected fragment), with placeholders
         /*@CONTRACT@*/ and /*@LOOP n@*/ where the side-car contract text is spliced.

The printer is a TOTAL function on a CLOSED table of AST node kinds.  Anything else raises
ExtractionBreak: the run then ends UNDECIDED (exit 2) -- never a guess and never a violation.
Every rewrite rule counts its firings (self.fired) and the counts go to the evidence file.
What the rendering changes/drops is documented in DESIGN.md section 3.2.
"""
import json, os, re, subprocess, hashlib, sys
from collections import Counter, OrderedDict


class ExtractionBreak(Exception):
    pass


REPO = os.environ.get('NIFLY_REPO', '/repo')

SCALARS = {
    'bool': '_Bool', 'char': 'char', 'signed char': 'int8_t', 'unsigned char': 'uint8_t',
    'short': 'int16_t', 'unsigned short': 'uint16_t', 'int': 'int', 'unsigned int': 'uint32_t',
    'long': 'int64_t', 'unsigned long': 'uint64_t', 'long long': 'int64_t', 'unsigned long long': 'uint64_t',
    'float': 'float', 'double': 'double', 'void': 'void',
    'size_t': 'size_t', 'std::size_t': 'size_t',
    'uint8_t': 'uint8_t', 'uint16_t': 'uint16_t', 'uint32_t': 'uint32_t', 'uint64_t': 'uint64_t',
    'int8_t': 'int8_t', 'int16_t': 'int16_t', 'int32_t': 'int32_t', 'int64_t': 'int64_t',
    'std::streamsize': 'int64_t', 'std::streampos': 'int64_t',
}


def load_docs(text):
    dec = json.JSONDecoder()
    i = 0
    docs = []
    n = len(text)
    while i < n:
        while i < n and text[i].isspace():
            i += 1
        if i >= n:
            break
        o, j = dec.raw_decode(text, i)
        docs.append(o)
        i = j
    return docs


def clang_ast(tu, flt, workdir, extra_args=()):
    """Dump the AST of every declaration whose qualified name contains `flt` from the real TU."""
    src = tu if os.path.isabs(tu) else os.path.join(REPO, tu)
    if not os.path.exists(src):
        raise ExtractionBreak('translation unit not found: ' + src)
    key = hashlib.sha1((src + '|' + flt + '|' + ' '.join(extra_args)).encode()).hexdigest()[:16]
    os.makedirs(workdir, exist_ok=True)
    out = os.path.join(workdir, 'ast_%s.json' % key)
    cmd = ['clang++', '-std=c++17', '-fsyntax-only', '-Wno-everything',
           '-I' + os.path.join(REPO, 'include'), '-I' + os.path.join(REPO, 'external'),
           '-Xclang', '-ast-dump=json', '-Xclang', '-ast-dump-filter=' + flt] + list(extra_args) + [src]
    with open(out, 'w') as f:
        r = subprocess.run(cmd, stdout=f, stderr=subprocess.PIPE, text=True)
    if r.returncode != 0:
        raise ExtractionBreak('clang failed on %s: %s' % (src, r.stderr[-2000:]))
    return load_docs(open(out).read())


def walk(n):
    yield n
    for c in n.get('inner', []) or []:
        if isinstance(c, dict):
            yield from walk(c)


def mangle(t):
    t = t.replace('nifly::', '').replace('std::', '')
    t = t.replace('unsigned short', 'u16').replace('unsigned int', 'u32').replace('unsigned char', 'u8')
    t = t.replace('unsigned long', 'u64').replace('uint16_t', 'u16').replace('uint32_t', 'u32').replace('uint8_t', 'u8')
    t = t.replace('uint64_t', 'u64').replace('size_t', 'u64').replace('_Bool', 'bool')
    return re.sub(r'\W+', '_', t).strip('_')


def split_targs(s):
    """split 'A<B,C>, D' at top-level commas"""
    out = []
    depth = 0
    cur = ''
    for ch in s:
        if ch in '<(':
            depth += 1
        elif ch in '>)':
            depth -= 1
        if ch == ',' and depth == 0:
            out.append(cur.strip())
            cur = ''
        else:
            cur += ch
    if cur.strip():
        out.append(cur.strip())
    return out


class Types:
    """C++ type string -> C type; generates vector typedefs and record structs on demand."""

    string_as_vector = False

    def __init__(self, typemap=None, records=None):
        self.typemap = dict(typemap or {})      # c++ spelled type -> C type name (opaque tokens etc.)
        self.records = dict(records or {})      # c++ record name -> C struct name (fields extracted from AST)
        self.vecs = OrderedDict()               # C vec typedef name -> element C type
        self.fired = Counter()

    @staticmethod
    def strip(t):
        t = t.strip()
        t = re.sub(r'\bconst\b', '', t)
        t = re.sub(r'\bstruct\b|\bclass\b|\benum\b', '', t)
        t = re.sub(r'\s+', ' ', t).strip()
        return t

    def c(self, qual, desugared=None):
        """value type (references dropped -- the caller decides about pointers)"""
        for t in (qual, desugared):
            if not t:
                continue
            r = self._c1(t)
            if r:
                return r
        raise ExtractionBreak('type not in table: %r / %r' % (qual, desugared))

    def _c1(self, t):
        t = self.strip(t)
        if t.endswith('&&'):
            t = t[:-2].strip()
        if t.endswith('&'):
            t = t[:-1].strip()
        if self.string_as_vector and t in ('std::string', 'std::basic_string<char>', 'basic_string<char>', 'string'):
            self.vecs['vec_char'] = 'char'
            self.fired['type:string-as-byte-vector'] += 1
            return 'vec_char'
        m0 = re.match(r'^__gnu_cxx::__alloc_traits<std::allocator<(.*)>, (.*)>::value_type$', t)
        if m0:
            # sugar clang prints for `auto& x = vec[i]`
            return self._c1(m0.group(2))
        if t in self.typemap:
            self.fired['type:typemap'] += 1
            return self.typemap[t]
        if t.startswith('__gnu_cxx::__normal_iterator<') or re.match(r'^(std::)?vector<.*>::(const_)?iterator$', t):
            # an iterator into a vector is rendered as the POSITION it designates (end() == size); only iterators obtained from
            # find(vector, value) are accepted (var_decl), every use goes through iter_* below
            self.fired['type:vector-iterator-as-position'] += 1
            return 'size_t'
        if t in SCALARS:
            return SCALARS[t]
        if t.endswith('*'):
            inner = self._c1(t[:-1])
            return (inner + ' *') if inner else None
        m = re.match(r'^(?:std::|nifly::)?(vector|deque|NiVector|NiVectorBase)<(.*)>$', t)
        if m:
            args = split_targs(m.group(2))
            el = self._c1(args[0])
            if not el:
                return None
            name = 'vec_' + mangle(el)
            self.vecs[name] = el
            self.fired['type:vector'] += 1
            return name
        m = re.match(r'^(?:std::)?array<(.*)>$', t)
        if m:
            return None
        if t in self.records:
            self.fired['type:record'] += 1
            return self.records[t]
        if ('nifly::' + t) in self.records:
            return self.records['nifly::' + t]
        if ('nifly::' + t) in self.typemap:
            return self.typemap['nifly::' + t]
        return None

    def is_vec(self, qual, desugared=None, ptr=False):
        for t in (desugared, qual):
            if not t:
                continue
            t = self.strip(t)
            while t.endswith('&'):
                t = t[:-1].strip()
            if t.endswith('*'):
                if not ptr:
                    continue
                t = t[:-1].strip()
            elif ptr:
                continue
            if re.match(r'^(std::|nifly::)?(vector|deque|NiVector|NiVectorBase)<.*>$', t) and '>::' not in t:
                return True
            if self.string_as_vector and t in ('std::string', 'std::basic_string<char>', 'basic_string<char>', 'string'):
                return True
        return False

    def is_ref(self, qual):
        q = qual.strip()
        return q.endswith('&')

    def typedefs(self, scalar_elems=None):
        """scalar_elems=True: only vectors of scalars (they may be members of records, so they precede the record structs);
        False: the others; None: all"""
        out = []
        for name, el in self.vecs.items():
            is_sc = el in SCALARS.values()
            if scalar_elems is not None and is_sc != scalar_elems:
                continue
            out.append('typedef struct { %s *data; size_t size; } %s;' % (el, name))
        return '\n'.join(out)


SIDE_EFFECT_KINDS = {'CallExpr', 'CXXMemberCallExpr', 'CXXOperatorCallExpr', 'CompoundAssignOperator'}


def has_side_effect(n):
    for x in walk(n):
        k = x.get('kind')
        if k in ('CompoundAssignOperator',):
            return True
        if k == 'UnaryOperator' and x.get('opcode') in ('++', '--'):
            return True
        if k == 'BinaryOperator' and x.get('opcode') == '=':
            return True
    return False


class Printer:
    def __init__(self, types, unit):
        self.T = types
        self.unit = unit
        self.fired = Counter()
        self.decl_ref = {}          # decl id -> True if C rendering is a pointer that must be dereferenced
        self.decl_name = {}         # decl id -> C name (renames)
        self.loop_no = 0
        self.tmp_no = 0
        self.self_members = unit.get('_selfs', {}).setdefault(unit.get('self', '_noself'), OrderedDict())   # shared per struct name
        self.called = Counter()     # C function names called (callees / shims)
        self.ret_vec = None         # C type of by-value vector return (rendered as out-parameter `ret`)
        self.callmap = unit.get('callmap', {})
        self.membermap = unit.get('membermap', {})
        self.freevars = OrderedDict()       # for fragments: decl id -> (name, ctype, isvec)
        self.fragment = False
        self.exposed = OrderedDict()
        self.byval_free = set()
        self.freevar_kind = {}
        self._ret_target = None
        self.local_ids = set()

    # ------------------------------------------------------------------ helpers
    def fire(self, rule):
        self.fired[rule] += 1

    def brk(self, what, n=None):
        loc = ''
        if n is not None:
            r = n.get('range', {}).get('begin', {})
            loc = ' at line %s' % (r.get('line') or r.get('expansionLoc', {}).get('line') or '?')
        raise ExtractionBreak(what + loc)

    def qt(self, n):
        t = n.get('type', {})
        return t.get('qualType', ''), t.get('desugaredQualType')

    def ctype_of(self, n):
        q, d = self.qt(n)
        return self.T.c(q, d)

    def is_vec_expr(self, n):
        q, d = self.qt(n)
        return self.T.is_vec(q, d)

    def skip(self, n):
        """peel wrappers that have no C counterpart"""
        while n.get('kind') in ('ExprWithCleanups', 'MaterializeTemporaryExpr', 'CXXBindTemporaryExpr',
                                'ConstantExpr', 'CXXFunctionalCastExpr') and n.get('inner'):
            if n['kind'] == 'CXXFunctionalCastExpr':
                break
            n = n['inner'][0]
        return n

    def callee_decl(self, f):
        while f.get('kind') not in ('DeclRefExpr', 'MemberExpr', 'UnresolvedLookupExpr') and f.get('inner'):
            f = f['inner'][0]
        return f

    # ------------------------------------------------------------------ expressions
    def e(self, n):
        k = n.get('kind')
        I = n.get('inner', []) or []
        if k in ('ExprWithCleanups', 'MaterializeTemporaryExpr', 'CXXBindTemporaryExpr', 'ConstantExpr'):
            self.fire('expr:wrapper')
            return self.e(I[0])
        if k == 'ParenExpr':
            return '(%s)' % self.e(I[0])
        if k == 'IntegerLiteral':
            self.fire('expr:int-literal')
            v = n['value']
            q = n['type']['qualType']
            suf = {'unsigned int': 'u', 'long': 'l', 'unsigned long': 'ul', 'unsigned long long': 'ull', 'long long': 'll'}.get(q, '')
            return v + suf
        if k == 'CXXBoolLiteralExpr':
            self.fire('expr:bool-literal')
            return '1' if n['value'] else '0'
        if k == 'CharacterLiteral':
            return str(n['value'])
        if k == 'FloatingLiteral':
            self.fire('expr:float-literal')
            v = n['value']
            q = n['type']['qualType']
            if not re.search(r'[.eE]', v):
                v += '.0'
            return v + ('f' if q == 'float' else '')
        if k == 'CXXNullPtrLiteralExpr' or k == 'GNUNullExpr':
            return 'NULL'
        if k == 'CXXThisExpr':
            self.fire('expr:this')
            return 'self'
        if k == 'DeclRefExpr':
            rd = n['referencedDecl']
            nm = self.decl_name.get(rd['id'], rd['name'])
            if rd['kind'] == 'EnumConstantDecl':
                self.fire('expr:enum-constant')
                return self.enum_value(rd, n)
            if self.unit.get('abstract') and rd['kind'] == 'ParmVarDecl' and nm not in self.unit.get('keep_params', []):
                # scalar parameter of an abstracted function: a ghost global gh_p_<name> (declared in the unit prelude, havocked by the harness)
                self.fire('abs:scalar-parameter-as-ghost')
                return 'gh_p_' + nm
            if self.fragment and rd['kind'] == 'VarDecl' and nm in self.unit.get('globals', []):
                self.fire('expr:global-constant')
                return nm
            if self.fragment and rd['id'] not in self.local_ids and rd['kind'] in ('VarDecl', 'ParmVarDecl'):
                if rd['id'] not in self.freevars:
                    q = rd['type']['qualType']
                    self.freevars[rd['id']] = (nm, self.T.c(q, rd['type'].get('desugaredQualType')))
                    self.freevar_kind[rd['id']] = rd['kind']
                self.fire('expr:free-variable')
                if rd['id'] in self.byval_free:
                    return nm
                return '(*%s)' % nm
            if self.decl_ref.get(rd['id']):
                self.fire('expr:deref-reference')
                return '(*%s)' % nm
            if rd['kind'] == 'VarDecl' and rd['id'] not in self.local_ids and not self.fragment:
                if nm not in self.unit.get('globals', []):
                    self.brk('reference to non-local variable %s (not listed under globals:)' % nm, n)
                self.fire('expr:global-constant')
            self.fire('expr:decl-ref')
            return nm
        if k == 'MemberExpr':
            return self.member(n)
        if k == 'ImplicitCastExpr':
            return self.cast(n, implicit=True)
        if k in ('CXXStaticCastExpr', 'CStyleCastExpr', 'CXXFunctionalCastExpr'):
            if n.get('castKind') in ('BaseToDerived', 'DerivedToBase', 'UncheckedDerivedToBase') and self.ctype_of(n) in self.unit.get('token_types', []):
                self.fire('cast:static-downcast-on-token')
                return self.e(I[-1])
            return self.cast(n, implicit=False)
        if k == 'CXXReinterpretCastExpr':
            # reinterpret_cast<char*>(&x): the byte view of an object handed to a byte-level model function (only with the unit's leave)
            if not self.unit.get('allow_reinterpret'):
                self.brk('expression kind not in table: CXXReinterpretCastExpr', n)
            q, d = self.qt(n)
            self.fire('cast:reinterpret-byte-view')
            return '((%s)%s)' % (self.T.c(q, d), self.e(I[-1]))
        if k == 'CXXDynamicCastExpr':
            # dynamic_cast<T*>(block): the result is the block itself or null, decided by the block's dynamic type -- a stub
            fn = self.callmap.get('dynamic_cast')
            if not fn:
                self.brk('dynamic_cast without a dynamic_cast entry in the callmap', n)
            self.fire('cast:dynamic-cast-stub')
            self.called[fn] += 1
            return '%s(%s)' % (fn, self.e(I[-1]))
        if k == 'BinaryOperator':
            op = n['opcode']
            self.fire('expr:binop')
            if op == ',':
                return '(%s, %s)' % (self.e(I[0]), self.e(I[1]))
            if op == '=' and self.is_vec_expr(I[0]):
                return self.vec_assign(I[0], I[1])
            return '(%s %s %s)' % (self.e(I[0]), op, self.e(I[1]))
        if k == 'CompoundAssignOperator':
            self.fire('expr:compound-assign')
            # C and C++ agree: computation in the usual-arithmetic-conversion type, then conversion to the lhs type
            return '(%s %s %s)' % (self.e(I[0]), n['opcode'], self.e(I[1]))
        if k == 'UnaryOperator':
            self.fire('expr:unop')
            op = n['opcode']
            if n.get('isPostfix'):
                return '(%s%s)' % (self.e(I[0]), op)
            return '(%s%s)' % (op, self.e(I[0]))
        if k == 'ConditionalOperator':
            self.fire('expr:conditional')
            return '(%s ? %s : %s)' % (self.e(I[0]), self.e(I[1]), self.e(I[2]))
        if k == 'ArraySubscriptExpr':
            self.fire('expr:array-subscript')
            return '%s[%s]' % (self.e(I[0]), self.e(I[1]))
        if k == 'UnaryExprOrTypeTraitExpr':
            if n.get('name') == 'sizeof':
                self.fire('expr:sizeof')
                if 'argType' in n:
                    return 'sizeof(%s)' % self.T.c(n['argType']['qualType'], n['argType'].get('desugaredQualType'))
                return 'sizeof(%s)' % self.e(I[0])
            self.brk('type trait ' + str(n.get('name')), n)
        if k == 'CXXMemberCallExpr':
            return self.member_call(n)
        if k == 'CXXOperatorCallExpr':
            return self.operator_call(n)
        if k == 'CallExpr':
            return self.call(n)
        if k in ('CXXConstructExpr', 'CXXTemporaryObjectExpr'):
            return self.construct(n)
        if k == 'CXXDefaultArgExpr':
            self.brk('default argument needs explicit handling', n)
        if k == 'InitListExpr':
            self.fire('expr:init-list')
            return '{%s}' % ', '.join(self.e(c) for c in I)
        if k == 'ImplicitValueInitExpr':
            return '0'
        if k == 'CXXScalarValueInitExpr':
            return '((%s)0)' % self.ctype_of(n)
        if k == 'StringLiteral':
            self.fire('expr:string-literal')
            return n['value']
        self.brk('expression kind not in table: ' + str(k), n)

    def enum_value(self, rd, n):
        ev = self.unit.get('enums', {})
        if rd['name'] in ev:
            return str(ev[rd['name']])
        lk = self.unit.get('_enum_lookup')
        if lk:
            v = lk(n.get('type', {}).get('qualType', ''), rd['name'])
            if v is not None:
                self.fire('expr:enum-value-from-ast')
                return str(v)
        self.brk('enum constant %s has no extracted value' % rd['name'], n)

    def member(self, n):
        I = n.get('inner', [])
        base = I[0]
        name = n['name']
        # strip base-class casts on this
        b = base
        while b.get('kind') == 'ImplicitCastExpr' and b.get('castKind') in ('UncheckedDerivedToBase', 'DerivedToBase', 'NoOp', 'LValueToRValue'):
            if b.get('castKind') in ('UncheckedDerivedToBase', 'DerivedToBase'):
                self.fire('expr:base-class-member-flattened')
            b = b['inner'][0]
        if b.get('kind') == 'CXXThisExpr':
            self.fire('expr:this-member')
            q, d = self.qt(n)
            name = self.membermap.get(name, name)
            if name not in self.self_members:
                self.self_members[name] = self.T.c(q, d)
            return 'self->%s' % name
        self.fire('expr:member')
        bs = self.e(b)
        # member of an object whose class is rendered as a PARTIAL struct (only the members the code touches)
        try:
            bct = self.ctype_of(b).rstrip('* ').strip()
        except ExtractionBreak:
            bct = None
        if bct and bct in self.unit.get('partial_structs', []):
            q, d = self.qt(n)
            reg = self.unit.get('_selfs', {}).setdefault(bct, OrderedDict())
            if name not in reg:
                reg[name] = self.T.c(q, d)
            self.fire('expr:partial-struct-member')
        return '%s%s%s' % (bs, '->' if n.get('isArrow') else '.', name)

    def cast(self, n, implicit):
        I = n['inner']
        ck = n.get('castKind')
        sub = I[-1]
        if ck in ('LValueToRValue', 'NoOp', 'FunctionToPointerDecay', 'ArrayToPointerDecay', 'ConstructorConversion',
                  'UncheckedDerivedToBase', 'DerivedToBase'):
            self.fire('cast:' + ck)
            return self.e(sub)
        if ck in ('IntegralCast', 'FloatingCast', 'IntegralToFloating', 'FloatingToIntegral'):
            self.fire('cast:' + ck)
            return '((%s)%s)' % (self.ctype_of(n), self.e(sub))
        if ck in ('IntegralToBoolean', 'PointerToBoolean', 'FloatingToBoolean'):
            self.fire('cast:' + ck)
            return '((_Bool)%s)' % self.e(sub)
        if ck == 'NullToPointer':
            return 'NULL'
        if ck == 'BitCast':
            self.fire('cast:BitCast')
            return '((%s)%s)' % (self.ctype_of(n), self.e(sub))
        if ck == 'ToVoid':
            return '((void)%s)' % self.e(sub)
        if ck == 'UserDefinedConversion':
            return self.e(sub)
        self.brk('cast kind not in table: %s' % ck, n)

    # -- vectors ---------------------------------------------------------------
    def vec_assign(self, lhs, rhs):
        r0 = self.skip(rhs)
        while r0.get('kind') in ('ImplicitCastExpr',) and r0.get('inner'):
            r0 = r0['inner'][0]
        if r0.get('kind') == 'CallExpr' and self.callee_decl(r0['inner'][0]).get('referencedDecl', {}).get('name') == 'move':
            # move assignment: the buffer changes hands (the moved-from vector is not used again: checked by the C compiler? no -- assumption)
            self.fire('vec:move-assign')
            return '(%s = %s)' % (self.e(lhs), self.e(r0['inner'][1]))
        self.fire('vec:assign')
        ct = self.ctype_of(lhs)
        fn = '%s_assign' % ct
        self.called[fn] += 1
        return '%s(&%s, &%s)' % (fn, self.e(lhs), self.e(self.skip(rhs)))

    def member_call(self, n):
        I = n['inner']
        me = I[0]
        if me.get('kind') != 'MemberExpr':
            self.brk('member call through ' + str(me.get('kind')), n)
        obj = me['inner'][0]
        m = me['name']
        args = [a for a in I[1:] if a.get('kind') != 'CXXDefaultArgExpr']
        # peel implicit casts on object
        o = obj
        while o.get('kind') == 'ImplicitCastExpr' and o.get('castKind') in ('NoOp', 'LValueToRValue'):
            o = o['inner'][0]
        q_, d_ = self.qt(o)
        if self.is_vec_expr(o) or (me.get('isArrow') and self.T.is_vec(q_, d_, ptr=True)):
            os_ = self.e(o)
            ct = self.ctype_of(o)
            if me.get('isArrow'):
                os_ = '(*%s)' % os_
                ct = ct.rstrip('* ').strip()
                self.fire('vec:through-pointer')
            if m == 'size':
                self.fire('vec:size')
                return '%s.size' % os_
            if m == 'empty':
                self.fire('vec:empty')
                return '(%s.size == 0)' % os_
            if m == 'data':
                self.fire('vec:data')
                return '%s.data' % os_
            if m == 'clear':
                self.fire('vec:clear')
                return '(%s.size = 0)' % os_
            if m == 'back':
                self.fire('vec:back')
                return '%s.data[%s.size - 1]' % (os_, os_)
            if m == 'front':
                self.fire('vec:front')
                return '%s.data[0]' % os_
            if m == 'at':
                self.fire('vec:at')
                return '%s.data[%s]' % (os_, self.e(args[0]))
            if m == 'resize' and len(args) == 1:
                self.fire('vec:resize')
                fn = '%s_resize' % ct
                self.called[fn] += 1
                return '%s(&%s, %s)' % (fn, os_, self.e(args[0]))
            if m == 'resize' and len(args) == 2:
                self.fire('vec:resize-fill')
                fn = '%s_resize_fill' % ct
                self.called[fn] += 1
                return '%s(&%s, %s, %s)' % (fn, os_, self.e(args[0]), self.e(self.skip(args[1])))
            if m == 'reserve':
                self.fire('vec:reserve-dropped')
                return '((void)0)'
            if m == 'shrink_to_fit':
                self.fire('vec:shrink-dropped')
                return '((void)0)'
            if m in ('push_back', 'emplace_back') and len(args) == 1:
                self.fire('vec:push_back')
                a = self.skip(args[0])
                return '(%s.data[%s.size] = %s, %s.size++)' % (os_, os_, self.e(a), os_)
            if m == 'emplace_back' and len(args) > 1:
                # in-place construction of a record element: same constructor-parameter -> field map as an explicit temporary
                q0, d0 = self.qt(o)
                t0 = Types.strip(d0 or q0)
                if me.get('isArrow'):
                    t0 = t0.rstrip('* ').strip()
                mm = re.match(r'^(?:std::)?vector<(.*)>$', t0)
                el = split_targs(mm.group(1))[0] if mm else None
                cm = self.unit.get('ctors', {})
                if el in cm and len(cm[el]) == len(args):
                    self.fire('vec:emplace_back-record')
                    elc = self.T.c(el)
                    lit = '((%s){%s})' % (elc, ', '.join('.%s = %s' % (f, self.e(self.skip(a))) for f, a in zip(cm[el], args)))
                    return '(%s.data[%s.size] = %s, %s.size++)' % (os_, os_, lit, os_)
                self.brk('emplace_back with %d args on %s' % (len(args), t0), n)
            if m == 'pop_back':
                self.fire('vec:pop_back')
                return '(%s.size--)' % os_
            if m == 'erase' and len(args) == 1 and Types.strip(args[0].get('type', {}).get('desugaredQualType') or args[0].get('type', {}).get('qualType', '')) in SCALARS:
                # NiVector::erase(index)
                self.fire('vec:erase-at-index')
                fn = '%s_erase_at' % ct
                self.called[fn] += 1
                return '%s(&%s, %s)' % (fn, os_, self.e(args[0]))
            if m == 'erase' and len(args) == 1:
                idx = self.iter_index(args[0], o)
                self.fire('vec:erase-at')
                fn = '%s_erase_at' % ct
                self.called[fn] += 1
                return '%s(&%s, %s)' % (fn, os_, idx)
            if m == 'insert' and len(args) == 2:
                idx = self.iter_index(args[0], o)
                self.fire('vec:insert-at')
                fn = '%s_insert_at' % ct
                self.called[fn] += 1
                return '%s(&%s, %s, %s)' % (fn, os_, idx, self.e(self.skip(args[1])))
            self.brk('vector member not in table: %s/%d' % (m, len(args)), n)
        if m.startswith('operator ') and not args:
            # conversion function (e.g. unique_ptr::operator bool) on an opaque token / pointer
            tgt = m[len('operator '):].strip()
            if tgt == 'bool':
                self.fire('call:conversion-to-bool')
                return '(%s != 0)' % self.e(o)
            ck = '%s<-%s' % (self.T.c(tgt, None), self.ctype_of(self.skip(o)))
            if ck in self.unit.get('convmap', {}):
                # value conversion of a library type the unit models by an (uninterpreted) function
                self.fire('call:conversion-mapped')
                return '%s(%s)' % (self.unit['convmap'][ck], self.e(o))
            self.brk('conversion function to ' + tgt, n)
        # call on this / another object -> C function  Class__method(&obj, args)
        cls = self.class_of(o, me)
        if ('%s::%s' % (cls, m)) in self.unit.get('identity_methods', []) and not args:
            # accessor returning the object's own value (unique_ptr::get on an opaque block token, NiString::get on a string token)
            self.fire('call:identity-accessor')
            return self.e(o)
        fn = self.callmap.get('%s::%s' % (cls, m), '%s__%s' % (mangle(cls), m))
        if ('%s::%s' % (cls, m)) not in self.callmap and self.unit.get('strict_calls', True) and self.fragment:
            self.brk('method call %s::%s not in the unit callmap' % (cls, m), n)
        byaddr = False
        if fn.startswith('&'):
            # model function that takes its operands by address (stream.Sync(x) reads or writes x)
            byaddr = True
            fn = fn[1:]
        if fn.endswith('*'):
            if not args:
                self.brk('type-suffixed callmap entry without argument', n)
            fn = fn[:-1] + mangle(self.ctype_of(self.skip(args[0])))
        self.called[fn] += 1
        self.fire('call:method')
        if o.get('kind') == 'CXXThisExpr':
            objs = 'self'
        else:
            b = o
            while b.get('kind') == 'ImplicitCastExpr':
                b = b['inner'][0]
            if b.get('kind') == 'CXXThisExpr':
                objs = 'self'
            elif me.get('isArrow'):
                objs = self.e(o)
            elif b.get('kind') in ('CXXMemberCallExpr', 'CallExpr'):
                # object is the result of a call returning a reference: the model function returns a pointer
                self.fire('call:object-from-call')
                objs = self.e(o)
            else:
                objs = '&' + self.e(o)
        if byaddr:
            al = [objs]
            for a in args:
                a0 = self.skip(a)
                if a0.get('valueCategory') == 'lvalue':
                    al.append('&' + self.e(a0))
                else:
                    al.append(self.e(a0))
        else:
            al = [objs] + [self.arg(a) for a in args]
        return '%s(%s)' % (fn, ', '.join(al))

    def class_of(self, o, me=None):
        q, d = self.qt(o)
        t = Types.strip(d or q)
        t = t.rstrip('*& ').strip()
        t = re.sub(r'<.*>$', '', t)
        return t.replace('nifly::', '').replace('std::', '')

    def arg(self, a):
        """argument of a call to a nifly function: by-reference parameters receive addresses"""
        a0 = self.skip(a)
        if a0.get('valueCategory') == 'lvalue' and (self.is_vec_expr(a0) or self.is_record_expr(a0)):
            self.fire('call:arg-by-address')
            return '&' + self.e(a0)
        return self.e(a0)

    def is_record_expr(self, n):
        q, d = self.qt(n)
        t = Types.strip(d or q)
        if t in self.T.records or ('nifly::' + t) in self.T.records:
            return True
        try:
            return self.T.c(q, d) in self.unit.get('byref_types', [])
        except ExtractionBreak:
            return False

    def iter_index(self, a, vec):
        """v.begin() + i  ->  i   (only that shape)"""
        a = self.skip(a)
        while a.get('kind') in ('ImplicitCastExpr', 'CXXConstructExpr', 'MaterializeTemporaryExpr') and a.get('inner'):
            a = a['inner'][0]
        if a.get('kind') == 'CXXMemberCallExpr' and a['inner'][0].get('name') in ('begin', 'cbegin'):
            return '0'
        if a.get('kind') == 'CXXOperatorCallExpr':
            f = self.callee_decl(a['inner'][0])
            if f.get('referencedDecl', {}).get('name') == 'operator+':
                l = self.skip(a['inner'][1])
                while l.get('kind') in ('ImplicitCastExpr', 'MaterializeTemporaryExpr') and l.get('inner'):
                    l = l['inner'][0]
                if l.get('kind') == 'CXXMemberCallExpr' and l['inner'][0].get('name') in ('begin', 'cbegin'):
                    self.fire('vec:iterator-begin-plus')
                    return self.e(a['inner'][2])
        self.brk('iterator expression not of the form begin()+i', a)

    def is_iter_type(self, q, d=None):
        for t_ in (q, d):
            t_ = Types.strip(t_ or '')
            if t_.startswith('__gnu_cxx::__normal_iterator<') or re.match(r'^(std::)?vector<.*>::(const_)?iterator$', t_):
                return True
        return False

    def iter_strip(self, x):
        while x.get('kind') in ('ImplicitCastExpr', 'ParenExpr', 'ExprWithCleanups', 'MaterializeTemporaryExpr', 'CXXBindTemporaryExpr') and x.get('inner') or \
                (x.get('kind') == 'CXXConstructExpr' and len(x.get('inner', [])) == 1):
            x = x['inner'][0]
        return x

    def iter_local(self, x):
        """(name, vector text) when x is an iterator local obtained from find(), else None"""
        x = self.iter_strip(x)
        if x.get('kind') == 'DeclRefExpr' and x.get('referencedDecl', {}).get('id') in getattr(self, 'iter_vec', {}):
            return x['referencedDecl']['name'], self.iter_vec[x['referencedDecl']['id']]
        return None

    def iter_bound(self, x, which):
        """text of V when x is V.begin() / V.end() (or cbegin/cend), else None"""
        x = self.iter_strip(x)
        if x.get('kind') == 'CXXMemberCallExpr' and x.get('inner') and x['inner'][0].get('name') in (which, 'c' + which) and x['inner'][0].get('inner'):
            return self.e(x['inner'][0]['inner'][0])
        return None

    def operator_call(self, n):
        I = n['inner']
        f = self.callee_decl(I[0])
        opn = f.get('referencedDecl', {}).get('name') or f.get('name')
        if opn in ('operator!=', 'operator==') and len(I) == 3 and (self.iter_local(I[1]) or self.iter_local(I[2])):
            a_, b_ = (I[1], I[2]) if self.iter_local(I[1]) else (I[2], I[1])
            nm_, v_ = self.iter_local(a_)
            if self.iter_bound(b_, 'end') == v_:
                self.fire('iter:compare-with-end')
                return '(%s %s %s.size)' % (nm_, '!=' if opn == 'operator!=' else '==', v_)
            self.brk('iterator compared with something else than end() of its own vector', n)
        if opn in ('operator!=', 'operator==') and len(I) == 3:
            # find(v, x) == v.end()  (no iterator local): the position compared with the size
            for a_, b_ in ((I[1], I[2]), (I[2], I[1])):
                c_ = self.iter_strip(a_)
                if c_.get('kind') == 'CallExpr' and c_.get('inner'):
                    f_ = self.callee_decl(c_['inner'][0])
                    ar_ = [x for x in c_['inner'][1:] if x.get('kind') != 'CXXDefaultArgExpr']
                    if (f_.get('referencedDecl', {}).get('name') or f_.get('name')) == 'find' and len(ar_) == 2 and self.is_vec_expr(ar_[0]):
                        vtxt = self.e(ar_[0])
                        if self.iter_bound(b_, 'end') == vtxt:
                            if not self.unit.get('unwind'):
                                self.brk('find() over a vector needs a bounded unit (the search loop is executed)', n)
                            fn = '%s_find' % self.ctype_of(ar_[0])
                            self.called[fn] += 1
                            self.fire('iter:find-compared-with-end')
                            return '(%s(&%s, %s) %s %s.size)' % (fn, vtxt, self.e(self.skip(ar_[1])), '!=' if opn == 'operator!=' else '==', vtxt)
        if opn == 'operator*' and len(I) == 2 and self.iter_local(I[1]):
            nm_, v_ = self.iter_local(I[1])
            self.fire('iter:deref')
            return '%s.data[%s]' % (v_, nm_)
        if len(I) >= 2 and any(self.is_iter_type(*self.qt(x)) for x in I[1:]):
            self.brk('iterator expression out of reach', n)
        if opn == 'operator[]' and self.is_vec_expr(I[1]):
            self.fire('vec:subscript')
            return '%s.data[%s]' % (self.e(I[1]), self.e(I[2]))
        if opn == 'operator=' and self.T.string_as_vector and self.is_vec_expr(I[1]):
            r0 = self.skip(I[2])
            while r0.get('kind') in ('ImplicitCastExpr', 'CXXBindTemporaryExpr', 'MaterializeTemporaryExpr', 'CXXConstructExpr') and r0.get('inner'):
                r0 = r0['inner'][0]
            if r0.get('kind') == 'CXXMemberCallExpr' and r0['inner'][0].get('name') == 'substr':
                src = r0['inner'][0]['inner'][0]
                while src.get('kind') == 'ImplicitCastExpr':
                    src = src['inner'][0]
                if self.e(src) == self.e(I[1]):
                    # s = s.substr(pos, n)
                    a = [x for x in r0['inner'][1:] if x.get('kind') != 'CXXDefaultArgExpr']
                    self.fire('str:substr-self-assign')
                    self.called['vec_char_substr_self'] += 1
                    return 'vec_char_substr_self(&%s, %s, %s)' % (self.e(I[1]), self.e(a[0]), self.e(a[1]))
            self.brk('string assignment form', n)
        if opn == 'operator=':
            if self.is_vec_expr(I[1]):
                return self.vec_assign(I[1], I[2])
            try:
                ck = '%s<-%s' % (self.ctype_of(self.skip(I[1])), self.ctype_of(self.skip(I[2])))
            except ExtractionBreak:
                ck = None
            if ck and ck in self.unit.get('convmap', {}):
                self.fire('op:converting-assign')
                return '(%s = %s(%s))' % (self.e(I[1]), self.unit['convmap'][ck], self.e(self.skip(I[2])))
            self.fire('op:record-assign')
            return '(%s = %s)' % (self.e(I[1]), self.e(self.skip(I[2])))
        opmap = self.unit.get('opmap', {})
        if opn in opmap and opmap[opn] in ('==', '!=', '<', '>', '<=', '>=') and len(I) == 3:
            for a in I[1:]:
                if self.ctype_of(self.skip(a)) not in self.unit.get('token_types', []):
                    self.brk('%s on a non-token type' % opn, n)
            # comparison of opaque value tokens (strings): decidable equality on the token
            self.fire('op:token-compare')
            return '(%s %s %s)' % (self.e(self.skip(I[1])), opmap[opn], self.e(self.skip(I[2])))
        if opn == 'operator*' and len(I) == 2:
            # unary * on a (smart) pointer rendered as a C pointer
            self.fire('op:deref')
            return '(*%s)' % self.e(I[1])
        if opn == 'operator->' and len(I) == 2:
            self.fire('op:arrow')
            return self.e(I[1])
        if opn in opmap:
            self.fire('op:mapped')
            fn = opmap[opn]
            self.called[fn] += 1
            return '%s(%s)' % (fn, ', '.join(self.arg(a) for a in I[1:]))
        self.brk('operator call not in table: %s' % opn, n)

    def call(self, n):
        I = n['inner']
        f = self.callee_decl(I[0])
        rd = f.get('referencedDecl', {})
        nm = rd.get('name') or f.get('name')
        args = [a for a in I[1:] if a.get('kind') != 'CXXDefaultArgExpr']
        dflt = [a for a in I[1:] if a.get('kind') == 'CXXDefaultArgExpr']
        if nm == 'move' or nm == 'forward':
            self.fire('call:std-move')
            return self.e(args[0])
        if nm in ('sort', 'stable_sort') and len(args) in (2, 3):
            # std::sort(v.begin(), v.end()[, std::greater<>()]) on a whole vector -> sorting shim of that vector type
            def whole(a, which):
                a = self.skip(a)
                while a.get('kind') in ('ImplicitCastExpr', 'CXXConstructExpr', 'MaterializeTemporaryExpr') and a.get('inner'):
                    a = a['inner'][0]
                if a.get('kind') == 'CXXMemberCallExpr' and a['inner'][0].get('name') == which:
                    return a['inner'][0]['inner'][0]
                return None
            vb, ve = whole(args[0], 'begin'), whole(args[1], 'end')
            if vb is None or ve is None or self.e(vb) != self.e(ve):
                self.brk('std::%s not over a whole vector' % nm, n)
            order = 'asc'
            if len(args) == 3:
                q3 = args[2].get('type', {}).get('qualType', '')
                if 'greater' in q3:
                    order = 'desc'
                else:
                    self.brk('std::%s with a comparator that is not std::greater<>' % nm, n)
            fn = '%s_sort_%s' % (self.ctype_of(vb), order)
            self.called[fn] += 1
            self.fire('call:std-sort')
            return '%s(&%s)' % (fn, self.e(vb))
        if nm == 'contains' and len(args) == 2 and self.is_vec_expr(args[0]) and nm not in self.callmap:
            # nifly's contains(container, value) == (find(container, value) != end): the search loop itself, bounded units only
            if not self.unit.get('unwind'):
                self.brk('contains() over a vector needs a bounded unit (the search loop is executed)', n)
            fn = '%s_find' % self.ctype_of(args[0])
            self.called[fn] += 1
            self.fire('call:contains-as-find')
            vt_ = self.e(args[0])
            return '(%s(&%s, %s) != %s.size)' % (fn, vt_, self.e(self.skip(args[1])), vt_)
        if nm == 'binary_search' and len(args) == 3 and self.iter_bound(args[0], 'begin') and self.iter_bound(args[0], 'begin') == self.iter_bound(args[1], 'end'):
            # std::binary_search over a whole vector: the algorithm itself (lower_bound by halving, as in libstdc++), whatever the
            # order of the elements is -- on a vector that is not sorted its answer is whatever that algorithm computes; bounded units only
            if not self.unit.get('unwind'):
                self.brk('binary_search needs a bounded unit (the search loop is executed)', n)
            vtxt = self.iter_bound(args[0], 'begin')
            vnode = self.iter_strip(args[0])['inner'][0]['inner'][0]
            fn = '%s_bsearch' % self.ctype_of(vnode)
            self.called[fn] += 1
            self.fire('call:std-binary-search')
            return '%s(&%s, %s)' % (fn, vtxt, self.e(self.skip(args[2])))
        if nm == 'distance' and len(args) == 2 and self.iter_local(args[1]):
            nm_, v_ = self.iter_local(args[1])
            if self.iter_bound(args[0], 'begin') == v_:
                self.fire('iter:distance-from-begin')
                return '((int64_t)%s)' % nm_
            self.brk('std::distance not from begin() of the iterator\'s own vector', n)
        if nm in ('max', 'min') and len(args) == 0:
            ct = self.ctype_of(n)
            lim = {'uint8_t': ('0', '255'), 'uint16_t': ('0', '65535'), 'uint32_t': ('0u', '4294967295u'), 'uint64_t': ('0ull', '18446744073709551615ull'),
                   'size_t': ('0ull', '18446744073709551615ull'), 'int': ('(-2147483647 - 1)', '2147483647'), 'int16_t': ('-32768', '32767')}
            if ct in lim:
                self.fire('call:numeric-limits')
                return '((%s)%s)' % (ct, lim[ct][1 if nm == 'max' else 0])
            self.brk('numeric_limits<%s>' % ct, n)
        if nm in ('max', 'min') and len(args) == 2:
            a, b = self.skip(args[0]), self.skip(args[1])
            if has_side_effect(a) or has_side_effect(b):
                self.brk('std::%s with side-effecting argument' % nm, n)
            self.fire('call:std-' + nm)
            A, B = self.e(a), self.e(b)
            if nm == 'max':
                return '((%s < %s) ? %s : %s)' % (A, B, B, A)
            return '((%s < %s) ? %s : %s)' % (B, A, B, A)
        if nm in self.callmap:
            fn = self.callmap[nm]
        else:
            fn = nm
        # template instantiations: callmap may key on "name<sig>"
        sig = rd.get('type', {}).get('qualType', '')
        key = '%s|%s' % (nm, sig)
        if key in self.callmap:
            fn = self.callmap[key]
        elif nm not in self.callmap and self.unit.get('strict_calls', True):
            self.brk('call to %s (%s) not in the unit callmap' % (nm, sig), n)
        self.called[fn] += 1
        self.fire('call:function')
        al = [self.arg(a) for a in args]
        for a in dflt:
            # defaulted trailing arguments: only the null-pointer default is in the table
            qd = Types.strip(a.get('type', {}).get('qualType', ''))
            if qd.endswith('*'):
                self.fire('call:default-argument-nullptr')
                al.append('NULL')
            else:
                self.brk('defaulted argument of type %s' % qd, n)
        if getattr(self, '_ret_target', None) and self.is_vec_expr(n):
            al.append(self._ret_target)
            self._ret_target = None
        return '%s(%s)' % (fn, ', '.join(al))

    def construct(self, n):
        I = [a for a in (n.get('inner') or []) if a.get('kind') != 'CXXDefaultArgExpr']
        q, d = self.qt(n)
        if len(I) == 1 and not self.is_vec_expr(n):
            t0 = Types.strip(I[0].get('type', {}).get('desugaredQualType') or I[0].get('type', {}).get('qualType', ''))
            t1 = Types.strip(d or q)
            if t0 == t1:
                self.fire('ctor:copy-or-move')
                return self.e(I[0])
        if len(I) == 1 and not self.is_vec_expr(n):
            try:
                if self.T.c(q, d) == self.ctype_of(I[0]) and self.T.c(q, d) in self.unit.get('token_types', []):
                    self.fire('ctor:token-identity')
                    return self.e(self.skip(I[0]))
            except ExtractionBreak:
                pass
        if len(I) == 0 and not self.is_vec_expr(n):
            try:
                if self.T.c(q, d) in self.unit.get('token_types', []):
                    # default-constructed string / empty smart pointer: the distinguished token 0
                    self.fire('ctor:default-token')
                    return '((%s)0)' % self.T.c(q, d)
                if self.T.c(q, d) in self.unit.get('zero_init_types', []):
                    self.fire('ctor:default-zero')
                    return '{0}'
            except ExtractionBreak:
                pass
        if len(I) == 1 and self.unit.get('convmap'):
            try:
                ck = '%s<-%s' % (self.T.c(q, d), self.ctype_of(self.skip(I[0])))
            except ExtractionBreak:
                ck = None
            if ck in self.unit['convmap']:
                self.fire('ctor:converting-mapped')
                return '%s(%s)' % (self.unit['convmap'][ck], self.e(self.skip(I[0])))
        if len(I) == 1 and self.is_vec_expr(n) and self.is_vec_expr(I[0]):
            self.brk('by-value vector copy construction', n)
        cm = self.unit.get('ctors', {})
        t1 = Types.strip(d or q)
        if t1 in cm and len(cm[t1]) == len(I):
            self.fire('ctor:record-fields')
            ct = self.T.c(q, d)
            return '((%s){%s})' % (ct, ', '.join('.%s = %s' % (fld, self.e(a)) for fld, a in zip(cm[t1], I)))
        self.brk('constructor of %s with %d args not in table' % (t1, len(I)), n)

    # ------------------------------------------------------------------ statements
    def var_decl(self, v, ind):
        t = '\t' * ind
        q = v['type']['qualType']
        d = v['type'].get('desugaredQualType')
        name = v['name']
        self.local_ids.add(v['id'])
        init = [c for c in v.get('inner', []) if c.get('kind') not in ('FullComment',)]
        isvec = self.T.is_vec(q, d)
        ct = self.T.c(q, d)
        if self.is_iter_type(q, d):
            c = self.iter_strip(init[0]) if init else {}
            if c.get('kind') == 'CallExpr' and c.get('inner'):
                f_ = self.callee_decl(c['inner'][0])
                a_ = [x for x in c['inner'][1:] if x.get('kind') != 'CXXDefaultArgExpr']
                if (f_.get('referencedDecl', {}).get('name') or f_.get('name')) == 'find' and len(a_) == 2 and self.is_vec_expr(a_[0]):
                    if not self.unit.get('unwind'):
                        self.brk('find() over a vector needs a bounded unit (the search loop is executed)', v)
                    vt_ = self.ctype_of(a_[0])
                    vtxt = self.e(a_[0])
                    if not hasattr(self, 'iter_vec'):
                        self.iter_vec = {}
                    self.iter_vec[v['id']] = vtxt
                    fn = '%s_find' % vt_
                    self.called[fn] += 1
                    self.fire('iter:find-as-position')
                    return t + 'size_t %s = %s(&%s, %s);\n' % (name, fn, vtxt, self.e(self.skip(a_[1])))
            self.brk('iterator local not initialised by find(vector, value)', v)
        if self.T.is_ref(q):
            self.decl_ref[v['id']] = True
            self.fire('decl:local-reference')
            if not init:
                self.brk('reference without initialiser', v)
            return t + '%s *%s = &%s;\n' % (ct, name, self.e(self.skip(init[0])))
        if name in self.unit.get('expose', []) and self.fragment:
            # a local declared inside the fragment whose final value the contract talks about: it becomes an out-parameter
            self.exposed[name] = ct
            self.decl_ref[v['id']] = True
            self.fire('fragment:exposed-local')
            ref = '(*%s)' % name
            if isvec:
                s = t + '%s.size = 0;\n' % ref
                if init:
                    c = self.skip(init[0])
                    cargs = [a for a in c.get('inner', []) if a.get('kind') != 'CXXDefaultArgExpr'] if c.get('kind') == 'CXXConstructExpr' else None
                    if cargs is not None and len(cargs) == 1 and not self.is_vec_expr(cargs[0]):
                        fn = '%s_ctor_n' % ct
                        self.called[fn] += 1
                        s += t + '%s(&%s, %s);\n' % (fn, ref, self.e(cargs[0]))
                    elif cargs is not None and len(cargs) == 0:
                        pass
                    else:
                        self.brk('initialiser form of exposed vector', v)
                return s
            return t + '%s = %s;\n' % (ref, self.e(self.skip(init[0]))) if init else ''
        if isvec:
            if v.get('nrvo') and self.ret_vec == ct:
                self.decl_ref[v['id']] = True
                self.fire('decl:nrvo-vector-aliases-out-param')
                s = t + '%s *%s = ret;\n' % (ct, name)
            else:
                self.fire('decl:local-vector')
                fn = '%s_new' % ct
                self.called[fn] += 1
                s = t + '%s %s = %s();\n' % (ct, name, fn)
                self.decl_ref[v['id']] = False
            ref = '(*%s)' % name if self.decl_ref[v['id']] else name
            if init:
                c = self.skip(init[0])
                # `const std::vector<T> v = f(...)`: the prvalue is wrapped in a NoOp cast to const
                while c.get('kind') == 'ImplicitCastExpr' and c.get('castKind') == 'NoOp' and c.get('inner'):
                    c = self.skip(c['inner'][0])
                if c.get('kind') == 'CXXConstructExpr':
                    cargs = [a for a in c.get('inner', []) if a.get('kind') != 'CXXDefaultArgExpr']
                    if len(cargs) == 0:
                        s += t + '%s.size = 0;\n' % ref
                    elif len(cargs) == 1 and not self.is_vec_expr(cargs[0]):
                        self.fire('vec:ctor-n')
                        fn = '%s_ctor_n' % ct
                        self.called[fn] += 1
                        s += t + '%s(&%s, %s);\n' % (fn, ref, self.e(cargs[0]))
                    elif len(cargs) == 2 and not self.is_vec_expr(cargs[0]):
                        self.fire('vec:ctor-n-fill')
                        fn = '%s_resize_fill' % ct
                        self.called[fn] += 1
                        s += t + '%s.size = 0;\n' % ref + t + '%s(&%s, %s, %s);\n' % (fn, ref, self.e(cargs[0]), self.e(self.skip(cargs[1])))
                    elif len(cargs) == 1:
                        self.fire('vec:ctor-copy')
                        fn = '%s_assign' % ct
                        self.called[fn] += 1
                        s += t + '%s.size = 0;\n' % ref + t + '%s(&%s, &%s);\n' % (fn, ref, self.e(self.skip(cargs[0])))
                    else:
                        self.brk('vector constructor form', v)
                elif c.get('kind') in ('CallExpr', 'CXXMemberCallExpr'):
                    # vector returned by value from a function under contract: the callee fills an out-parameter
                    self.fire('decl:vector-from-call')
                    s += t + '%s.size = 0;\n' % ref
                    self._ret_target = '&' + ref
                    call_txt = self.e(c)
                    self._ret_target = None
                    s += t + call_txt + ';\n'
                else:
                    self.brk('vector initialiser kind ' + str(c.get('kind')), v)
            else:
                s += t + '%s.size = 0;\n' % ref
            return s
        self.fire('decl:local')
        if not init:
            return t + '%s %s;\n' % (ct, name)
        c = init[0]
        return t + '%s %s = %s;\n' % (ct, name, self.e(self.skip(c)) if c.get('kind') != 'InitListExpr' else self.e(c))

    def loop_tag(self):
        self.loop_no += 1
        return self.loop_no

    def st(self, n, ind):
        k = n.get('kind')
        I = n.get('inner', []) or []
        t = '\t' * ind
        if k == 'CompoundStmt':
            self.fire('stmt:compound')
            return t + '{\n' + ''.join(self.st(c, ind + 1) for c in I) + t + '}\n'
        if k == 'IfStmt':
            self.fire('stmt:if')
            if n.get('hasInit') or n.get('hasVar'):
                self.brk('if with init/var', n)
            r = t + 'if (%s)\n' % self.e(I[0]) + self.block(I[1], ind)
            if len(I) > 2:
                r += t + 'else\n' + self.block(I[2], ind)
            return r
        if k == 'ReturnStmt':
            self.fire('stmt:return')
            if I and self.ret_vec:
                v = self.skip(I[0])
                while v.get('kind') in ('CXXConstructExpr', 'ImplicitCastExpr') and v.get('inner'):
                    v = v['inner'][0]
                if v.get('kind') == 'DeclRefExpr' and self.decl_ref.get(v['referencedDecl']['id']):
                    return t + 'return;\n'
                if v.get('kind') == 'DeclRefExpr':
                    return t + '{ *ret = %s; return; }\n' % self.e(v)
                self.brk('vector return of a non-variable', n)
            return t + 'return%s;\n' % ((' ' + self.e(I[0])) if I else '')
        if k == 'DeclStmt':
            return ''.join(self.var_decl(v, ind) for v in I if v.get('kind') == 'VarDecl')
        if k == 'ForStmt':
            self.fire('stmt:for')
            init, _cv, cond, inc, body = I
            no = self.loop_tag()
            pre = ''
            ini = ''
            if init.get('kind') == 'DeclStmt':
                pre = ''.join(self.var_decl(v, ind + 1) for v in init['inner'])
            elif init.get('kind'):
                ini = self.e(init)
            cs = self.e(cond) if cond.get('kind') else '1'
            incs = self.e(inc) if inc.get('kind') else ''
            s = t + '{\n' + pre
            s += t + '\t/*@BEFORE-LOOP %d@*/\n' % no
            s += t + '\tfor (%s; %s; %s)\n' % (ini, cs, incs)
            s += t + '\t/*@LOOP %d@*/\n' % no
            s += self.loop_body(body, ind + 1, no)
            s += t + '\t/*@AFTER-LOOP %d@*/\n' % no
            s += t + '}\n'
            return s
        if k == 'WhileStmt':
            self.fire('stmt:while')
            cond, body = I[-2], I[-1]
            no = self.loop_tag()
            s = t + '/*@BEFORE-LOOP %d@*/\n' % no
            s += t + 'while (%s)\n' % self.e(cond)
            s += t + '/*@LOOP %d@*/\n' % no
            s += self.loop_body(body, ind, no)
            s += t + '/*@AFTER-LOOP %d@*/\n' % no
            return s
        if k == 'CXXForRangeStmt':
            return self.range_for(n, ind)
        if k == 'BreakStmt':
            self.fire('stmt:break')
            return t + 'break;\n'
        if k == 'ContinueStmt':
            self.fire('stmt:continue')
            return t + 'continue;\n'
        if k == 'NullStmt':
            return t + ';\n'
        if k == 'SwitchStmt':
            self.fire('stmt:switch')
            return t + 'switch (%s)\n' % self.e(I[-2]) + self.st(I[-1], ind)
        if k == 'CaseStmt':
            self.fire('stmt:case')
            return t + 'case %s:\n' % self.e(I[0]) + ''.join(self.st(c, ind + 1) for c in I[1:])
        if k == 'DefaultStmt':
            return t + 'default:\n' + ''.join(self.st(c, ind + 1) for c in I)
        # expression statement
        self.fire('stmt:expr')
        return t + self.e(n) + ';\n'

    # ------------------------------------------------------------------ abstracting rendering (guard/frame units only)
    def is_value_local(self, rd):
        """a local variable that holds its data itself: not a pointer, reference, smart pointer or iterator into the model"""
        if not rd or rd.get('kind') not in ('VarDecl', 'ParmVarDecl') or rd.get('id') not in self.local_ids:
            return False
        q = (rd.get('type') or {}).get('qualType', '')
        d = (rd.get('type') or {}).get('desugaredQualType', '') or ''
        for tt in (q, d):
            ts = tt.strip()
            if ts.endswith('*') or ts.endswith('&') or '_ptr<' in ts or 'iterator' in ts or 'reference_wrapper' in ts or ts in ('auto', ''):
                if ts in ('auto', '') and tt is d:
                    continue
                return False
        return True

    def root_object(self, n):
        """the variable an expression statement operates on (call object / assignment target), or None"""
        n = self.skip(n)
        k = n.get('kind')
        I = n.get('inner', []) or []
        if k in ('CXXMemberCallExpr',) and I and I[0].get('kind') == 'MemberExpr':
            return self.root_object(I[0]['inner'][0])
        if k in ('BinaryOperator', 'CompoundAssignOperator') and n.get('opcode', '').endswith('='):
            return self.root_object(I[0])
        if k in ('CXXOperatorCallExpr',) and len(I) >= 2:
            return self.root_object(I[1])
        if k in ('MemberExpr', 'ImplicitCastExpr', 'ParenExpr', 'ArraySubscriptExpr', 'UnaryOperator') and I:
            return self.root_object(I[0])
        if k == 'DeclRefExpr':
            return n.get('referencedDecl', {})
        if k == 'CXXThisExpr':
            return {'kind': 'this'}
        return None

    def st_abs(self, n, ind):
        """control flow is kept; anything the table cannot render becomes TOUCH() (may modify the model) unless it provably
        operates on a local variable only; conditions that cannot be rendered become nondeterministic"""
        k = n.get('kind')
        I = n.get('inner', []) or []
        t = '\t' * ind

        def cond(c):
            try:
                for x in walk(c):
                    if x.get('kind') == 'DeclRefExpr' and x.get('referencedDecl', {}).get('kind') in ('VarDecl', 'BindingDecl'):
                        raise ExtractionBreak('condition over a local')
                    if x.get('kind') == 'DeclRefExpr' and x.get('referencedDecl', {}).get('kind') == 'ParmVarDecl' and \
                            Types.strip(x['referencedDecl'].get('type', {}).get('qualType', '')) not in SCALARS:
                        raise ExtractionBreak('condition over a non-scalar parameter')
                    if x.get('kind') in ('CallExpr', 'CXXMemberCallExpr', 'CXXOperatorCallExpr'):
                        raise ExtractionBreak('condition with a call')
                return self.e(c)
            except ExtractionBreak:
                # partial rendering of && / ||
                cc = self.skip(c)
                while cc.get('kind') in ('ImplicitCastExpr', 'ParenExpr') and cc.get('inner'):
                    cc = cc['inner'][0]
                if cc.get('kind') == 'BinaryOperator' and cc.get('opcode') in ('&&', '||'):
                    return '(%s %s %s)' % (cond(cc['inner'][0]), cc['opcode'], cond(cc['inner'][1]))
                if cc.get('kind') == 'UnaryOperator' and cc.get('opcode') == '!':
                    return '(!%s)' % cond(cc['inner'][0])
                self.fire('abs:nondet-condition')
                return 'nondet_bool()'
        if k == 'CompoundStmt':
            return t + '{\n' + ''.join(self.st_abs(c, ind + 1) for c in I) + t + '}\n'
        if k == 'IfStmt':
            pre = ''
            if n.get('hasInit') or n.get('hasVar'):
                # if (init; cond) / if (auto x = ...): the leading declaration(s) come first in the child list
                nskip = (1 if n.get('hasInit') else 0) + (1 if n.get('hasVar') else 0)
                for dcl in I[:nskip]:
                    pre += self.st_abs(dcl, ind)
                I = I[nskip:]
                self.fire('abs:if-with-declaration')
            # calls with a declared ghost effect inside the CONDITION take effect before the branch
            eff_c = self.unit.get('call_effects', {})
            if eff_c and I and I[0]:
                for c in walk(I[0]):
                    if c.get('kind') in ('CXXMemberCallExpr', 'CallExpr') and c.get('inner'):
                        f_c = self.callee_decl(c['inner'][0])
                        nm_c = f_c.get('name') or f_c.get('referencedDecl', {}).get('name')
                        if nm_c in eff_c:
                            self.fire('abs:call-with-ghost-effect-in-condition')
                            pre += t + eff_c[nm_c] + ';   /* %s (in the condition) */\n' % nm_c
            r = pre + t + 'if (%s)\n' % cond(I[0]) + t + '{\n' + self.st_abs(I[1], ind + 1) + t + '}\n'
            if len(I) > 2:
                r += t + 'else\n' + t + '{\n' + self.st_abs(I[2], ind + 1) + t + '}\n'
            return r
        if k == 'ReturnStmt':
            self.fire('abs:return')
            return t + 'return;\n'
        allow = set(self.unit.get('allow_calls', []))

        def risky_calls(x):
            """calls inside x that are neither on a local object nor whitelisted"""
            out = []
            for c in walk(x):
                if c.get('kind') in ('CXXMemberCallExpr', 'CallExpr'):
                    f = self.callee_decl(c['inner'][0]) if c.get('inner') else {}
                    nm = f.get('name') or f.get('referencedDecl', {}).get('name')
                    if nm in allow or nm in ('move', 'forward', 'max', 'min'):
                        continue
                    ro_ = self.root_object(c)
                    if self.is_value_local(ro_):
                        continue
                    out.append(nm)
            return out
        if k == 'DeclStmt':
            for v in I:
                if v.get('kind') == 'VarDecl':
                    self.local_ids.add(v['id'])
            rc = risky_calls(n)
            if rc:
                self.fire('abs:touch-in-initialiser')
                return t + 'TOUCH(); /* initialiser calls %s */\n' % ', '.join(str(x) for x in rc)
            eff = self.unit.get('call_effects', {})
            hits = []
            for c in walk(n):
                if c.get('kind') in ('CXXMemberCallExpr', 'CallExpr') and c.get('inner'):
                    f_ = self.callee_decl(c['inner'][0])
                    nm_ = f_.get('name') or f_.get('referencedDecl', {}).get('name')
                    if nm_ in eff:
                        hits.append(nm_)
            if hits:
                self.fire('abs:call-with-ghost-effect')
                return ''.join(t + eff[h] + ';   /* initialiser calls %s */\n' % h for h in hits)
            self.fire('abs:local-decl')
            return t + '/* local declaration */;\n'
        if k in ('ForStmt', 'WhileStmt', 'CXXForRangeStmt', 'DoStmt'):
            # a loop runs its body zero or more times: for a frame obligation one optional execution is enough
            body = I[-1]
            for x in walk(n):
                if x.get('kind') == 'VarDecl':
                    self.local_ids.add(x['id'])
            self.fire('abs:loop-as-optional-body')
            if self.unit.get('abs_loop_twice'):
                # ordering obligations between consecutive iterations: zero, one or two iterations
                b1 = self.st_abs(body, ind + 1)
                b2 = self.st_abs(body, ind + 2)
                return t + 'if (nondet_bool())\n' + t + '{\n' + b1 + t + '\tif (nondet_bool())\n' + t + '\t{\n' + b2 + t + '\t}\n' + t + '}\n'
            return t + 'if (nondet_bool())\n' + t + '{\n' + self.st_abs(body, ind + 1) + t + '}\n'
        if k in ('BreakStmt', 'ContinueStmt', 'NullStmt'):
            return t + ';\n'
        ro = self.root_object(n)
        eff0 = self.unit.get('call_effects', {})
        if eff0:
            hits0 = []
            for c in walk(n):
                if c.get('kind') in ('CXXMemberCallExpr', 'CallExpr') and c.get('inner'):
                    f0 = self.callee_decl(c['inner'][0])
                    nm0 = f0.get('name') or f0.get('referencedDecl', {}).get('name')
                    if nm0 in eff0:
                        hits0.append(nm0)
            if hits0 and not [x for x in risky_calls(n) if x not in eff0]:
                # a statement whose calls all have declared ghost effects (also on a local object, e.g. the local output stream):
                # the effects, in evaluation order of the walk; if the statement also stores into the model, that is a TOUCH()
                self.fire('abs:call-with-ghost-effect')
                txt0 = ''.join(t + eff0[h] + ';   /* %s */\n' % h for h in hits0)
                if not (self.is_value_local(ro) or self.skip(n).get('kind') in ('CXXMemberCallExpr', 'CallExpr')):
                    txt0 += t + 'TOUCH();\n'
                return txt0
        if self.is_value_local(ro) and not risky_calls(n):
            self.fire('abs:local-only-statement')
            return t + '/* operates on a local variable */;\n'
        nn = self.skip(n)
        # (1) calls with a declared ghost effect (`call_effects: callee => ghost statement`), (2) calls of other abstracted methods of
        #     the same object (`abs_calls: callee => C function`), (3) assignments of one scalar member from scalar members/literals
        if nn.get('kind') in ('CXXMemberCallExpr', 'CallExpr') and nn.get('inner'):
            f_ = self.callee_decl(nn['inner'][0])
            nm_ = f_.get('name') or f_.get('referencedDecl', {}).get('name')
            eff = self.unit.get('call_effects', {})
            if nm_ in eff and len(risky_calls(n)) <= (0 if nm_ in allow else 1):
                self.fire('abs:call-with-ghost-effect')
                return t + eff[nm_] + ';   /* %s */\n' % nm_
            ac = self.unit.get('abs_calls', {})
            if nm_ in ac:
                ro_ = self.root_object(nn)
                if ro_ and ro_.get('kind') == 'this':
                    self.fire('abs:call-of-abstracted-method')
                    self.called[ac[nm_]] += 1
                    return t + '%s(self);\n' % ac[nm_]
        if nn.get('kind') == 'BinaryOperator' and nn.get('opcode') == '=':
            try:
                for x in walk(nn):
                    if x.get('kind') in ('CallExpr', 'CXXMemberCallExpr', 'CXXOperatorCallExpr', 'CXXConstructExpr'):
                        raise ExtractionBreak('not a plain scalar assignment')
                    if x.get('kind') == 'DeclRefExpr' and x.get('referencedDecl', {}).get('kind') == 'VarDecl':
                        raise ExtractionBreak('local in assignment')
                lhs = nn['inner'][0]
                if Types.strip(lhs.get('type', {}).get('qualType', '')) in SCALARS:
                    txt_ = self.e(nn)
                    self.fire('abs:scalar-member-assignment')
                    return t + txt_ + ';\n'
            except ExtractionBreak:
                pass
        if nn.get('kind') in ('CXXMemberCallExpr', 'CallExpr') and not risky_calls(n):
            self.fire('abs:whitelisted-call')
            return t + '/* whitelisted call */;\n'
        self.fire('abs:touch')
        return t + 'TOUCH();\n'

    # ------------------------------------------------------------------ size-tracking rendering (abstract: sizes)
    # Keeps exactly: control flow, scalar members of *this (flattened paths f_<a>_<b>), sizes of container members of *this
    # (sz_<a>_<b>), scalar locals, the effect of resize/clear/push_back on those sizes, and the effect of stream.Sync(x) on a scalar
    # member or local x (havoc when reading).  Everything else (element data, calls of other member functions) is dropped and reported
    # as a rule firing `sz:call-assumed-neutral:<name>`; the unit's assumptions list them.
    def sz_path(self, n):
        """[a, b, c] for the member path this->a.b.c, else None"""
        def strip(b):
            while b.get('kind') in ('ImplicitCastExpr', 'ParenExpr', 'MaterializeTemporaryExpr', 'CXXBindTemporaryExpr') and b.get('inner'):
                b = b['inner'][0]
            return b
        b = strip(n)
        names = []
        while b.get('kind') == 'MemberExpr' and b.get('inner'):
            names.append(b['name'])
            base = strip(b['inner'][0])
            if b.get('isArrow'):
                if base.get('kind') == 'CXXThisExpr':
                    return list(reversed(names)), n
                return None, n
            b = base
        if names and b.get('kind') == 'DeclRefExpr' and b.get('referencedDecl', {}).get('id') in getattr(self, 'sz_elem_refs', {}):
            # member of `auto& e = this->container[i]`: the fields of THE CURRENT ELEMENT, arbitrary at the binding
            return self.sz_elem_refs[b['referencedDecl']['id']] + list(reversed(names)), n
        return None, n

    def sz_member(self, names, node, size=False):
        nm = ('sz_' if size else 'f_') + '_'.join(names)
        reg = self.unit['_selfs'].setdefault(self.unit['self'], OrderedDict())
        if size:
            reg.setdefault(nm, 'size_t')
        else:
            q, d = self.qt(node)
            t = Types.strip(d or q)
            if t in SCALARS:
                ct = SCALARS[t]
            else:
                ct = self.T.c(q, d)     # enums / typedefs from the unit's typemap
                if ct not in SCALARS.values() and ct not in self.unit.get('sz_scalar_types', []):
                    raise ExtractionBreak('not a scalar member: %s (%s)' % ('.'.join(names), ct))
            reg.setdefault(nm, ct)
        return 'self->' + nm

    def sz_e(self, n):
        """scalar expression over flattened members, sizes, tracked locals and literals; raises when out of reach"""
        k = n.get('kind')
        I = n.get('inner', []) or []
        if k in ('ImplicitCastExpr', 'ParenExpr', 'ExprWithCleanups', 'MaterializeTemporaryExpr', 'ConstantExpr') and I:
            if k == 'ImplicitCastExpr' and n.get('castKind') in ('IntegralCast', 'IntegralToBoolean', 'IntegralToFloating', 'FloatingToIntegral'):
                q, d = self.qt(n)
                t = Types.strip(d or q)
                if t in SCALARS and k == 'ImplicitCastExpr':
                    return '((%s)%s)' % (SCALARS[t], self.sz_e(I[-1]))
            return self.sz_e(I[-1]) if k != 'ParenExpr' else '(%s)' % self.sz_e(I[-1])
        if k in ('CXXStaticCastExpr', 'CStyleCastExpr', 'CXXFunctionalCastExpr') and I:
            q, d = self.qt(n)
            t = Types.strip(d or q)
            if t not in SCALARS:
                raise ExtractionBreak('cast to non-scalar')
            return '((%s)%s)' % (SCALARS[t], self.sz_e(I[-1]))
        if k in ('IntegerLiteral', 'CXXBoolLiteralExpr'):
            return self.e(n)
        if k == 'DeclRefExpr':
            rd = n.get('referencedDecl', {})
            if rd.get('kind') == 'EnumConstantDecl':
                return self.e(n)
            if rd.get('id') in self.sz_locals:
                return self.sz_locals[rd['id']]
            raise ExtractionBreak('untracked variable')
        if k == 'MemberExpr':
            names, _ = self.sz_path(n)
            if names:
                return self.sz_member(names, n)
            raise ExtractionBreak('member of something else than *this')
        if k == 'UnaryOperator' and n.get('opcode') in ('!', '-', '~') and I:
            return '(%s%s)' % (n['opcode'], self.sz_e(I[0]))
        if k == 'CXXOperatorCallExpr' and len(I) == 3 and self.unit.get('sz_witness'):
            # S.find(e) == S.end()  /  != : membership test on a witness set, rendered through the set's `count` entry
            f_ = self.callee_decl(I[0])
            opn_ = f_.get('name') or f_.get('referencedDecl', {}).get('name')
            if opn_ in ('operator==', 'operator!='):
                def as_call(x):
                    while x.get('kind') in ('ImplicitCastExpr', 'ParenExpr', 'MaterializeTemporaryExpr', 'CXXBindTemporaryExpr', 'CXXConstructExpr') and x.get('inner'):
                        x = x['inner'][0]
                    return x if x.get('kind') == 'CXXMemberCallExpr' and x.get('inner') and x['inner'][0].get('kind') == 'MemberExpr' else None
                a_, b_ = as_call(I[1]), as_call(I[2])
                if a_ and b_:
                    if a_['inner'][0].get('name') == 'end':
                        a_, b_ = b_, a_
                    if a_['inner'][0].get('name') == 'find' and b_['inner'][0].get('name') == 'end':
                        wk = self.sz_wkey(a_['inner'][0]['inner'][0], 'count')
                        if wk:
                            self.fire('sz:witness-find-vs-end')
                            c_ = self.sz_wfill(self.unit['sz_witness'][wk], a_['inner'][1:])
                            return '((%s) %s 0)' % (c_, '==' if opn_ == 'operator==' else '!=')
            raise ExtractionBreak('operator call in scalar expression')
        if k == 'BinaryOperator' and n.get('opcode') in ('+', '-', '*', '/', '%', '<', '>', '<=', '>=', '==', '!=', '&&', '||', '&', '|', '>>', '<<'):
            if n['opcode'] in ('&&', '||'):
                parts = []
                for x in I:
                    try:
                        parts.append(self.sz_e(x))
                    except ExtractionBreak:
                        self.fire('sz:nondet-condition')
                        parts.append('nondet_bool()')
                return '(%s %s %s)' % (parts[0], n['opcode'], parts[1])
            return '(%s %s %s)' % (self.sz_e(I[0]), n['opcode'], self.sz_e(I[1]))
        if k == 'ConditionalOperator' and len(I) == 3:
            return '(%s ? %s : %s)' % (self.sz_e(I[0]), self.sz_e(I[1]), self.sz_e(I[2]))
        if k == 'CallExpr' and I:
            f_ = self.callee_decl(I[0])
            fname_ = f_.get('name') or f_.get('referencedDecl', {}).get('name')
            if len(I) >= 2 and self.unit.get('sz_witness'):
                # free function over a witness container: contains(X.member, e) -> entry `<member>.contains` of the witness map
                wk = self.sz_wkey(I[1], fname_)
                if wk:
                    self.fire('sz:witness-free-call')
                    return '(%s)' % self.sz_wfill(self.unit['sz_witness'][wk], I[2:])
            if (f_.get('name') or f_.get('referencedDecl', {}).get('name')) == 'ToFile' and len(I) == 5:
                # NiVersion::ToFile(a, b, c, d) with literal arguments: the packed version number (constexpr in the source)
                vals = []
                for a in I[1:]:
                    a0 = a
                    while a0.get('kind') in ('ImplicitCastExpr', 'ParenExpr', 'ConstantExpr') and a0.get('inner'):
                        a0 = a0['inner'][0]
                    if a0.get('kind') != 'IntegerLiteral':
                        raise ExtractionBreak('ToFile with a non-literal argument')
                    vals.append(int(a0['value']))
                self.fire('sz:tofile-constant')
                return '((uint32_t)%du)' % ((vals[0] << 24) | (vals[1] << 16) | (vals[2] << 8) | vals[3])
            raise ExtractionBreak('call in scalar expression')
        if k == 'CXXMemberCallExpr' and I:
            me = I[0]
            m = me.get('name')
            obj = me['inner'][0] if me.get('inner') else {}
            cc = self.unit.get('sz_cond_calls', {})
            if m in cc and len(I) == 1:
                self.fire('sz:mapped-call')
                return '(%s)' % cc[m]
            wk = self.sz_wkey(obj, m)
            if wk:
                self.fire('sz:witness-call')
                return '(%s)' % self.sz_wfill(self.unit['sz_witness'][wk], I[1:])
            if m in ('size', 'empty') and len(I) == 1:
                names, _ = self.sz_path(obj)
                if names:
                    szv = self.sz_member(names, obj, size=True)
                    return szv if m == 'size' else '(%s == 0)' % szv
            raise ExtractionBreak('call in scalar expression')
        raise ExtractionBreak('expression out of reach: %s' % k)

    def sz_wkey(self, obj, m):
        """key `<last member name>.<method>` of the unit's witness map, if the call object ends in a member access"""
        b = obj
        while b.get('kind') in ('ImplicitCastExpr', 'ParenExpr') and b.get('inner'):
            b = b['inner'][0]
        if b.get('kind') == 'MemberExpr':
            k = '%s.%s' % (b.get('name'), m)
            if k in self.unit.get('sz_witness', {}):
                return k
        return None

    def sz_wfill(self, tmpl, args):
        """$0, $1 ... are the call's arguments when they can be rendered as tracked scalars, otherwise an arbitrary value"""
        for i_, a in enumerate(args):
            if a.get('kind') == 'CXXDefaultArgExpr':
                continue
            try:
                v = self.sz_e(a)
            except ExtractionBreak:
                self.fire('sz:witness-argument-arbitrary')
                v = 'nondet_u32()'
            tmpl = tmpl.replace('$%d' % i_, '(%s)' % v)
        return tmpl

    def sz_havoc(self, lv, ct):
        return '{ %s nd_; %s = nd_; }' % (ct, lv)

    def st_sz(self, n, ind):
        k = n.get('kind')
        I = n.get('inner', []) or []
        t = '\t' * ind
        if not hasattr(self, 'sz_locals'):
            self.sz_locals = {}
            self.sz_local_types = {}

        def cond(c):
            try:
                return self.sz_e(c)
            except ExtractionBreak:
                self.fire('sz:nondet-condition')
                return 'nondet_bool()'
        if k == 'CompoundStmt':
            return t + '{\n' + ''.join(self.st_sz(c, ind + 1) for c in I) + t + '}\n'
        if k == 'IfStmt':
            pre = ''
            if n.get('hasInit') or n.get('hasVar'):
                nskip = (1 if n.get('hasInit') else 0) + (1 if n.get('hasVar') else 0)
                for dcl in I[:nskip]:
                    pre += self.st_sz(dcl, ind)
                I = I[nskip:]
            r = pre + t + 'if (%s)\n' % cond(I[0]) + t + '{\n' + self.st_sz(I[1], ind + 1) + t + '}\n'
            if len(I) > 2:
                r += t + 'else\n' + t + '{\n' + self.st_sz(I[2], ind + 1) + t + '}\n'
            return r
        if k == 'ReturnStmt':
            self.fire('sz:return')
            return t + 'return;\n'
        if k in ('BreakStmt', 'ContinueStmt', 'NullStmt'):
            return t + ';\n'
        if k == 'DeclStmt':
            out = ''
            for v in I:
                if v.get('kind') != 'VarDecl':
                    continue
                q = v['type']['qualType']
                d = v['type'].get('desugaredQualType')
                tt = Types.strip(d or q)
                if tt in SCALARS and not self.T.is_ref(q):
                    nm = v['name']
                    init = [c for c in v.get('inner', []) if c.get('kind') not in ('FullComment',)]
                    self.sz_locals[v['id']] = nm
                    self.sz_local_types[nm] = SCALARS[tt]
                    try:
                        iv = self.sz_e(init[0]) if init else None
                    except ExtractionBreak:
                        iv = None
                    self.fire('sz:scalar-local')
                    if iv is not None:
                        out += t + '%s %s = %s;\n' % (SCALARS[tt], nm, iv)
                    else:
                        out += t + '%s %s; /* arbitrary */\n' % (SCALARS[tt], nm)
                else:
                    eref = None
                    if self.T.is_ref(q):
                        init = [c for c in v.get('inner', []) if c.get('kind') not in ('FullComment',)]
                        i0 = init[0] if init else {}
                        while i0.get('kind') in ('ImplicitCastExpr', 'ParenExpr', 'ExprWithCleanups', 'MaterializeTemporaryExpr') and i0.get('inner'):
                            i0 = i0['inner'][0]
                        if i0.get('kind') == 'CXXOperatorCallExpr' and len(i0.get('inner', [])) == 3:
                            f_ = self.callee_decl(i0['inner'][0])
                            if (f_.get('name') or f_.get('referencedDecl', {}).get('name')) == 'operator[]':
                                cn, _ = self.sz_path(i0['inner'][1])
                                if cn:
                                    eref = cn + ['E']
                    if eref:
                        if not hasattr(self, 'sz_elem_refs'):
                            self.sz_elem_refs = {}
                        self.sz_elem_refs[v['id']] = eref
                        self.fire('sz:element-reference')
                        out += t + '/*@ELEM %s@*/\n' % '_'.join(eref)
                    else:
                        self.fire('sz:untracked-local')
                        out += t + '/* untracked local %s */;\n' % v.get('name')
            return out
        if k in ('ForStmt', 'WhileStmt', 'CXXForRangeStmt', 'DoStmt'):
            body = I[-1]
            saved = dict(self.sz_locals)
            pre = ''
            if k == 'ForStmt' and I and I[0] and I[0].get('kind') == 'DeclStmt':
                pre = self.st_sz(I[0], ind + 1)
            btxt = self.st_sz(body, ind + 1)
            inc = ''
            if k == 'ForStmt' and len(I) > 3 and I[3] and I[3].get('kind'):
                inc = self.st_sz(I[3], ind + 1)
            targets = sorted(set(re.findall(r'^\s*(?:\{ \w+ nd_; )?(self->\w+|\w+) = ', btxt + inc, re.M)))
            hv = ''
            for tg in targets:
                if tg.startswith('self->'):
                    ct = self.unit['_selfs'][self.unit['self']].get(tg[6:])
                else:
                    ct = self.sz_local_types.get(tg)
                if ct and not re.search(r'^\s*%s %s\b' % (re.escape(ct), re.escape(tg)), btxt, re.M):
                    hv += t + '\t' + self.sz_havoc(tg, ct) + '\n'
            if self.unit.get('sz_concrete_loops'):
                # invariant-independent re-check (triage): the loop as a loop, explored up to the unwinding bound
                cnd = None
                if k in ('ForStmt', 'WhileStmt'):
                    cnode = I[2] if k == 'ForStmt' else I[0]
                    try:
                        cnd = self.sz_e(cnode) if cnode and cnode.get('kind') else None
                    except ExtractionBreak:
                        cnd = None
                self.fire('sz:loop-concrete')
                self.sz_locals = saved if k != 'ForStmt' else self.sz_locals
                return t + '{\n' + pre + t + '\twhile (%s)\n' % (cnd or 'nondet_bool()') + t + '\t{\n' + btxt + inc + t + '\t}\n' + t + '}\n'
            self.fire('sz:loop-as-havoc-then-optional-body')
            self.sz_loop_no = getattr(self, 'sz_loop_no', 0) + 1
            inv = self.unit.get('sz_loop_inv_%d' % self.sz_loop_no) or self.unit.get('sz_loop_inv')
            if inv:
                # loop abstraction by an INDUCTIVE INVARIANT: it holds on entry (asserted); an arbitrary state satisfying it, followed by
                # one iteration, satisfies it again (asserted); after the loop: the entry state (no iteration) or such a state
                for hv_ in self.unit.get('sz_loop_havoc', []):
                    # name:type[:trigger|trigger...] -- the ghost is havocked (under the invariant) when the loop body mentions it,
                    # one of its trigger macros, or a mapped call
                    parts_ = hv_.split(':')
                    nm_, ct_ = parts_[0], parts_[1]
                    trig_ = parts_[2].split('|') if len(parts_) > 2 else []
                    if re.search(r'\b%s\b' % re.escape(nm_), btxt) or any(re.search(r'\b%s\b' % re.escape(x_), btxt) for x_ in trig_) or \
                            any(c_ in btxt for c_ in self.unit.get('sz_call_map', {}).values()):
                        hv += t + '\t' + self.sz_havoc(nm_, ct_) + '\n'
                cnd = None
                if k in ('ForStmt', 'WhileStmt'):
                    cnode = I[2] if k == 'ForStmt' else I[0]
                    try:
                        cnd = self.sz_e(cnode) if cnode and cnode.get('kind') else None
                    except ExtractionBreak:
                        cnd = None
                self.fire('sz:loop-by-invariant')
                s_ = t + '{\n' + pre
                s_ += t + '\t__CPROVER_assert(%s, "loop %d: invariant holds on entry");\n' % (inv, self.sz_loop_no)
                s_ += t + '\tif (nondet_bool())\n' + t + '\t{\n' + hv + t + '\t\t__CPROVER_assume(%s);\n' % inv
                if cnd:
                    s_ += t + '\t\t__CPROVER_assume(%s);\n' % cnd
                s_ += btxt
                if k == 'ForStmt' and len(I) > 3 and I[3] and I[3].get('kind'):
                    s_ += self.st_sz(I[3], ind + 2)
                s_ += t + '\t\t__CPROVER_assert(%s, "loop %d: invariant preserved by an iteration");\n' % (inv, self.sz_loop_no)
                s_ += t + '\t}\n'
                if cnd and not any(x.get('kind') == 'BreakStmt' for x in walk(body)):
                    s_ += t + '\t__CPROVER_assume(!(%s));\n' % cnd
                s_ += t + '}\n'
                self.sz_locals = saved if k != 'ForStmt' else self.sz_locals
                return s_
            self.sz_locals = saved if k != 'ForStmt' else self.sz_locals
            # 0 iterations: skipped; >= 1 iterations: arbitrary state of everything the body assigns, then the last iteration
            return t + 'if (nondet_bool())\n' + t + '{\n' + pre + hv + btxt + t + '}\n'
        nn = n
        while nn.get('kind') in ('ExprWithCleanups', 'ImplicitCastExpr', 'ParenExpr') and nn.get('inner'):
            nn = nn['inner'][0]
        if nn.get('kind') == 'CXXMemberCallExpr' and nn.get('inner') and nn['inner'][0].get('kind') == 'MemberExpr':
            me0 = nn['inner'][0]
            wk = self.sz_wkey(me0['inner'][0] if me0.get('inner') else {}, me0.get('name'))
            if wk:
                self.fire('sz:witness-statement')
                return t + self.sz_wfill(self.unit['sz_witness'][wk], nn['inner'][1:]) + ';\n'
            if me0.get('name') in self.unit.get('sz_call_map', {}):
                self.fire('sz:mapped-call-statement')
                fnm = self.unit['sz_call_map'][me0['name']]
                self.called[fnm.split('(')[0]] += 1
                return t + fnm + ';\n'
        if nn.get('kind') == 'CXXMemberCallExpr' and nn.get('inner'):
            me = nn['inner'][0]
            m = me.get('name')
            obj = me['inner'][0] if me.get('inner') else {}
            args = [a for a in nn['inner'][1:] if a.get('kind') != 'CXXDefaultArgExpr']
            names, _ = self.sz_path(obj)
            if m in ('resize', 'clear', 'push_back', 'emplace_back', 'pop_back', 'reserve', 'shrink_to_fit', 'assign') and names:
                szv = self.sz_member(names, obj, size=True)
                if m == 'resize' and len(args) >= 1:
                    try:
                        self.fire('sz:resize')
                        return t + '%s = (size_t)%s;\n' % (szv, self.sz_e(args[0]))
                    except ExtractionBreak:
                        self.fire('sz:resize-to-unknown')
                        return t + self.sz_havoc(szv, 'size_t') + '\n'
                if m == 'assign' and len(args) == 2:
                    try:
                        self.fire('sz:assign-n-copies')
                        return t + '%s = (size_t)%s;\n' % (szv, self.sz_e(args[0]))
                    except ExtractionBreak:
                        return t + self.sz_havoc(szv, 'size_t') + '\n'
                if m == 'clear':
                    self.fire('sz:clear')
                    return t + '%s = 0;\n' % szv
                if m in ('push_back', 'emplace_back'):
                    self.fire('sz:push-back')
                    return t + 'if (%s < (size_t)-1) %s = %s + 1; \n' % (szv, szv, szv)
                if m in ('reserve', 'shrink_to_fit'):
                    return t + ';\n'
                self.fire('sz:size-to-unknown')
                return t + self.sz_havoc(szv, 'size_t') + '\n'
            sync_names = self.unit.get('sz_sync_calls', ['Sync', 'SyncHalf'])
            if m in sync_names and len(args) == 2 and not names:
                # raw transfer  stream.Sync((char*) X.data(), count * sizeof(T)) : in BOTH modes the container must hold `count` elements
                a0 = args[0]
                while a0.get('kind') in ('ImplicitCastExpr', 'ParenExpr', 'CStyleCastExpr', 'CXXReinterpretCastExpr', 'CXXStaticCastExpr') and a0.get('inner'):
                    a0 = a0['inner'][-1]
                if a0.get('kind') == 'CXXMemberCallExpr' and a0.get('inner') and a0['inner'][0].get('name') == 'data':
                    cn, _ = self.sz_path(a0['inner'][0]['inner'][0]) if a0['inner'][0].get('inner') else (None, None)
                    a1 = args[1]
                    while a1.get('kind') in ('ImplicitCastExpr', 'ParenExpr') and a1.get('inner'):
                        a1 = a1['inner'][0]
                    cnt = None
                    if a1.get('kind') == 'BinaryOperator' and a1.get('opcode') == '*':
                        ops_ = []
                        for x_ in a1['inner']:
                            while x_.get('kind') in ('ImplicitCastExpr', 'ParenExpr') and x_.get('inner'):
                                x_ = x_['inner'][0]
                            ops_.append(x_)
                        szof = [x_ for x_ in ops_ if x_.get('kind') == 'UnaryExprOrTypeTraitExpr' and x_.get('name') == 'sizeof']
                        oth = [x_ for x_ in ops_ if not (x_.get('kind') == 'UnaryExprOrTypeTraitExpr' and x_.get('name') == 'sizeof')]
                        if len(szof) == 1 and len(oth) == 1:
                            try:
                                cnt = self.sz_e(oth[0])
                            except ExtractionBreak:
                                cnt = None
                    if cn and cnt is not None:
                        szv = self.sz_member(cn, a0, size=True)
                        self.fire('sz:raw-transfer-checked')
                        return t + '__CPROVER_assert((size_t)(%s) <= %s, "raw transfer of %s: the container holds at least the transferred element count");\n' % (cnt, szv, '.'.join(cn))
                    self.fire('sz:raw-transfer-unchecked')
                    return t + '/* raw transfer out of reach of the size abstraction */;\n'
            if m in sync_names and len(args) >= 1 and not names:
                a0 = args[0]
                while a0.get('kind') in ('ImplicitCastExpr', 'ParenExpr') and a0.get('inner'):
                    a0 = a0['inner'][0]
                an, _ = self.sz_path(a0)
                if an and len(args) == 1:
                    try:
                        lv = self.sz_member(an, a0)
                        ct = self.unit['_selfs'][self.unit['self']][lv[6:]]
                        self.fire('sz:sync-scalar-member')
                        return t + 'if (gh_mode == 0) %s\n' % self.sz_havoc(lv, ct)
                    except ExtractionBreak:
                        pass
                if a0.get('kind') == 'DeclRefExpr' and a0.get('referencedDecl', {}).get('id') in self.sz_locals:
                    nm = self.sz_locals[a0['referencedDecl']['id']]
                    self.fire('sz:sync-scalar-local')
                    return t + 'if (gh_mode == 0) %s\n' % self.sz_havoc(nm, self.sz_local_types[nm])
                self.fire('sz:sync-of-untracked-data')
                return t + '/* sync of element data */;\n'
            self.fire('sz:call-assumed-neutral:%s' % m)
            return t + '/* call of %s: assumed not to change tracked fields */;\n' % m
        if nn.get('kind') == 'CallExpr':
            f_ = self.callee_decl(nn['inner'][0]) if nn.get('inner') else {}
            fn0 = f_.get('name') or f_.get('referencedDecl', {}).get('name')
            if fn0 in self.unit.get('sz_call_map', {}):
                self.fire('sz:mapped-call-statement')
                return t + self.unit['sz_call_map'][fn0] + ';\n'
            self.fire('sz:call-assumed-neutral:%s' % (f_.get('name') or f_.get('referencedDecl', {}).get('name')))
            return t + '/* free function call */;\n'
        if nn.get('kind') == 'BinaryOperator' and nn.get('opcode') == '=' and self.unit.get('sz_witness'):
            l0 = nn['inner'][0]
            while l0.get('kind') in ('ImplicitCastExpr', 'ParenExpr') and l0.get('inner'):
                l0 = l0['inner'][0]
            if l0.get('kind') == 'CXXOperatorCallExpr' and len(l0.get('inner', [])) == 3:
                cont = l0['inner'][1]
                while cont.get('kind') in ('ImplicitCastExpr', 'ParenExpr') and cont.get('inner'):
                    cont = cont['inner'][0]
                if cont.get('kind') == 'MemberExpr':
                    incs = [x for x in walk(nn['inner'][1]) if x.get('kind') == 'UnaryOperator' and x.get('opcode') == '++' and any(y.get('kind') == 'MemberExpr' for y in walk(x))]
                    rhs_name = None
                    for x in incs:
                        for y in walk(x):
                            if y.get('kind') == 'MemberExpr':
                                rhs_name = y.get('name')
                    key = '%s[]=%s++' % (cont.get('name'), rhs_name) if rhs_name else '%s[]=' % cont.get('name')
                    if key in self.unit['sz_witness']:
                        self.fire('sz:witness-assignment')
                        return t + self.sz_wfill(self.unit['sz_witness'][key], [l0['inner'][2]]) + ';\n'
        if nn.get('kind') in ('BinaryOperator', 'CompoundAssignOperator') and self.unit.get('sz_witness'):
            # plain or compound assignment to a member named in the witness map (`<member>=`), whatever object it belongs to
            l1 = nn['inner'][0]
            while l1.get('kind') in ('ImplicitCastExpr', 'ParenExpr') and l1.get('inner'):
                l1 = l1['inner'][0]
            if l1.get('kind') == 'MemberExpr' and ('%s=' % l1.get('name')) in self.unit['sz_witness'] and nn.get('opcode', '=').endswith('=') and nn.get('opcode') not in ('==', '!=', '<=', '>='):
                self.fire('sz:witness-member-assignment')
                return t + self.unit['sz_witness']['%s=' % l1['name']] + ';\n'
        if nn.get('kind') in ('BinaryOperator', 'CompoundAssignOperator') and (nn.get('opcode') == '=' or nn.get('kind') == 'CompoundAssignOperator'):
            lhs = nn['inner'][0]
            while lhs.get('kind') in ('ImplicitCastExpr', 'ParenExpr') and lhs.get('inner'):
                lhs = lhs['inner'][0]
            lv = None
            ct = None
            ln, _ = self.sz_path(lhs)
            try:
                if ln:
                    lv = self.sz_member(ln, lhs)
                    ct = self.unit['_selfs'][self.unit['self']][lv[6:]]
                elif lhs.get('kind') == 'DeclRefExpr' and lhs.get('referencedDecl', {}).get('id') in self.sz_locals:
                    lv = self.sz_locals[lhs['referencedDecl']['id']]
                    ct = self.sz_local_types[lv]
            except ExtractionBreak:
                lv = None
            if lv:
                try:
                    rhs = self.sz_e(nn['inner'][1])
                    self.fire('sz:scalar-assignment')
                    op = nn.get('opcode', '=')
                    return t + '%s %s (%s)%s;\n' % (lv, op, ct, rhs) if op == '=' else t + '%s %s %s;\n' % (lv, op, rhs)
                except ExtractionBreak:
                    self.fire('sz:assignment-of-unknown')
                    return t + self.sz_havoc(lv, ct) + '\n'
            self.fire('sz:assignment-to-untracked')
            return t + '/* assignment to untracked data */;\n'
        if nn.get('kind') == 'UnaryOperator' and nn.get('opcode') in ('++', '--'):
            x = nn['inner'][0]
            if x.get('kind') == 'DeclRefExpr' and x.get('referencedDecl', {}).get('id') in self.sz_locals:
                nm = self.sz_locals[x['referencedDecl']['id']]
                return t + '%s = (%s)(%s %s 1);\n' % (nm, self.sz_local_types[nm], nm, '+' if nn['opcode'] == '++' else '-')
            return t + ';\n'
        if nn.get('kind') == 'CXXOperatorCallExpr' and len(nn.get('inner', [])) == 3:
            f0 = self.callee_decl(nn['inner'][0])
            opn0 = f0.get('name') or f0.get('referencedDecl', {}).get('name')
            if opn0 == 'operator>>':
                # stream >> x : a read into x
                a0 = nn['inner'][2]
                while a0.get('kind') in ('ImplicitCastExpr', 'ParenExpr') and a0.get('inner'):
                    a0 = a0['inner'][0]
                an, _ = self.sz_path(a0)
                if an:
                    try:
                        lv = self.sz_member(an, a0)
                        ct = self.unit['_selfs'][self.unit['self']][lv[6:]]
                        self.fire('sz:read-scalar-member')
                        return t + self.sz_havoc(lv, ct) + '\n'
                    except ExtractionBreak:
                        pass
                if a0.get('kind') == 'DeclRefExpr' and a0.get('referencedDecl', {}).get('id') in self.sz_locals:
                    nm = self.sz_locals[a0['referencedDecl']['id']]
                    self.fire('sz:read-scalar-local')
                    return t + self.sz_havoc(nm, self.sz_local_types[nm]) + '\n'
                self.fire('sz:read-of-untracked-data')
                return t + '/* read of element data */;\n'
        if nn.get('kind') == 'CXXOperatorCallExpr':
            # whole-object assignment (vector = vector ...): size of a tracked container becomes unknown
            if len(nn.get('inner', [])) >= 2:
                ln, _ = self.sz_path(nn['inner'][1])
                if ln:
                    try:
                        q, d = self.qt(nn['inner'][1])
                        if self.T.is_vec(q, d):
                            rn, _ = self.sz_path(nn['inner'][2]) if len(nn['inner']) > 2 else (None, None)
                            szv = self.sz_member(ln, nn['inner'][1], size=True)
                            if rn:
                                return t + '%s = %s;\n' % (szv, self.sz_member(rn, nn['inner'][2], size=True))
                            return t + self.sz_havoc(szv, 'size_t') + '\n'
                    except ExtractionBreak:
                        pass
            self.fire('sz:operator-call-assumed-neutral')
            return t + '/* operator call */;\n'
        self.fire('sz:statement-dropped:%s' % nn.get('kind'))
        return t + '/* %s dropped */;\n' % nn.get('kind')

    def block(self, n, ind):
        if n.get('kind') == 'CompoundStmt':
            return self.st(n, ind)
        return '\t' * ind + '{\n' + self.st(n, ind + 1) + '\t' * ind + '}\n'

    def loop_body(self, body, ind, no, first=''):
        t = '\t' * ind
        s = t + '{\n' + first + t + '\t/*@IN-LOOP %d@*/\n' % no
        if body.get('kind') == 'CompoundStmt':
            s += ''.join(self.st(c, ind + 1) for c in body.get('inner', []) or [])
        else:
            s += self.st(body, ind + 1)
        s += t + '\t/*@END-LOOP %d@*/\n' % no
        s += t + '}\n'
        return s

    def range_for(self, n, ind):
        I = n['inner']
        t = '\t' * ind
        rng = None
        lv = None
        for c in I:
            if c.get('kind') == 'DeclStmt':
                v = c['inner'][0]
                if v.get('name', '').startswith('__range'):
                    rng = v
                elif not v.get('name', '').startswith('__'):
                    lv = v
        body = I[-1]
        if rng is None or lv is None:
            self.brk('range-for shape', n)
        rexpr = self.skip(rng['inner'][0])
        try:
            rct0 = self.ctype_of(rexpr)
        except ExtractionBreak:
            rct0 = None
        if rct0 in self.unit.get('cellset_types', []) or not self.is_vec_expr(rexpr):
            try:
                rct = self.ctype_of(rexpr)
            except ExtractionBreak:
                rct = None
            if rct in self.unit.get('cellset_types', []):
                # std::set<NiRef*> / std::vector<NiStringRef*> filled by the enumerators: one contiguous range of cells (DESIGN.md 3.2)
                self.fire('stmt:range-for-cellset')
                no = self.loop_tag()
                R = self.e(rexpr)
                ix = '__i%d' % no
                q = lv['type']['qualType']
                ct = self.T.c(q, lv['type'].get('desugaredQualType'))
                self.local_ids.add(lv['id'])
                self.decl_ref[lv['id']] = False
                first = t + '\t%s %s = &%s.cells[%s];\n' % (ct, lv['name'], R, ix)
                s = t + '/*@BEFORE-LOOP %d@*/\n' % no
                s += t + 'for (size_t %s = %s.lo; %s < %s.hi; ++%s)\n' % (ix, R, ix, R, ix)
                s += t + '/*@LOOP %d@*/\n' % no
                s += self.loop_body(body, ind, no, first)
                s += t + '/*@AFTER-LOOP %d@*/\n' % no
                return s
            self.brk('range-for over a non-vector', n)
        # the body must not resize the range
        self.fire('stmt:range-for')
        no = self.loop_tag()
        R = self.e(rexpr)
        ix = '__i%d' % no
        q = lv['type']['qualType']
        ct = self.T.c(q, lv['type'].get('desugaredQualType'))
        self.local_ids.add(lv['id'])
        if self.T.is_ref(q):
            self.decl_ref[lv['id']] = True
            first = t + '\t%s *%s = &%s.data[%s];\n' % (ct, lv['name'], R, ix)
        else:
            first = t + '\t%s %s = %s.data[%s];\n' % (ct, lv['name'], R, ix)
        s = t + '/*@BEFORE-LOOP %d@*/\n' % no
        s += t + 'for (size_t %s = 0; %s < %s.size; ++%s)\n' % (ix, ix, R, ix)
        s += t + '/*@LOOP %d@*/\n' % no
        s += self.loop_body(body, ind, no, first)
        s += t + '/*@AFTER-LOOP %d@*/\n' % no
        return s


def find_function(docs, unit):
    """select the FunctionDecl/CXXMethodDecl by name + exact clang signature, with a body"""
    want_name = unit['decl']
    want_sig = unit.get('sig')
    cls = unit.get('class')
    found = []
    for d in docs:
        for n in walk(d):
            if n.get('kind') in ('FunctionDecl', 'CXXMethodDecl', 'CXXConstructorDecl') and n.get('name') == want_name:
                if want_sig and n.get('type', {}).get('qualType') not in [x.strip() for x in want_sig.split(' || ')]:
                    continue
                if not any(c.get('kind') == 'CompoundStmt' for c in n.get('inner', []) or []):
                    continue
                if unit.get('targs'):
                    ta = [c.get('type', {}).get('qualType') for c in n.get('inner', []) if c.get('kind') == 'TemplateArgument']
                    if ta != [x.strip() for x in unit['targs'].split(',')]:
                        continue
                found.append(n)
    if cls:
        # class membership cannot be read off a detached out-of-line definition; the dump filter carries it
        pass
    if not found:
        raise ExtractionBreak('no definition of %s with signature %r in the dump' % (want_name, want_sig))
    # identical duplicates (the same definition printed under several filters) are fine
    ids = {f['id'] for f in found}
    if len(ids) > 1:
        raise ExtractionBreak('ambiguous: %d definitions of %s %r' % (len(ids), want_name, want_sig))
    return found[0]


def record_fields(docs, recname):
    short = recname.split('::')[-1]
    for d in docs:
        for n in walk(d):
            if n.get('kind') == 'CXXRecordDecl' and n.get('name') == short and n.get('completeDefinition'):
                fl = [(c['name'], c['type']['qualType'], c['type'].get('desugaredQualType'))
                      for c in n.get('inner', []) if c.get('kind') == 'FieldDecl']
                ctors = []
                for c in n.get('inner', []):
                    if c.get('kind') == 'CXXConstructorDecl' and not c.get('isImplicit'):
                        params = [p['name'] for p in c.get('inner', []) if p.get('kind') == 'ParmVarDecl']
                        inits = []
                        for ci in c.get('inner', []):
                            if ci.get('kind') == 'CXXCtorInitializer' and 'anyInit' in ci:
                                src = None
                                for x in walk(ci):
                                    if x.get('kind') == 'DeclRefExpr':
                                        src = x['referencedDecl']['name']
                                inits.append((ci['anyInit']['name'], src))
                        ctors.append((params, inits))
                return fl, ctors
    raise ExtractionBreak('record %s not found' % recname)


def render_function(unit, docs, types):
    fn = find_function(docs, unit)
    p = Printer(types, unit)
    cname = unit['name']
    params = []
    is_method = fn['kind'] in ('CXXMethodDecl',) and not fn.get('storageClass') == 'static' and not unit.get('static')
    if unit.get('static') and any(x.get('kind') == 'CXXThisExpr' for x in walk(fn)):
        raise ExtractionBreak('unit declared static but the body uses this')
    selfname = unit.get('self')
    if is_method:
        if not selfname:
            raise ExtractionBreak('method %s needs a self struct name' % cname)
        params.append('%s *self' % selfname)
    for c in fn.get('inner', []):
        if c.get('kind') == 'ParmVarDecl' and unit.get('abstract') and c.get('name') not in unit.get('keep_params', []):
            p.local_ids.add(c['id'])
            continue
        if c.get('kind') == 'ParmVarDecl':
            q = c['type']['qualType']
            d = c['type'].get('desugaredQualType')
            ct = types.c(q, d)
            isvec = types.is_vec(q, d)
            p.local_ids.add(c['id'])
            is_rec = Types.strip(d or q).rstrip('& ').strip() in types.records or ('nifly::' + Types.strip(d or q).rstrip('& ').strip()) in types.records
            if types.is_ref(q) and q.strip().startswith('const ') and not isvec and not is_rec and ct not in unit.get('byref_types', []):
                # const reference to a scalar / opaque token: passed by value (no aliasing can be observed through a const&)
                p.fire('param:const-ref-scalar-by-value')
                params.append('%s %s' % (ct, c['name']))
            elif types.is_ref(q):
                p.decl_ref[c['id']] = True
                params.append('%s *%s' % (ct, c['name']))
            elif isvec:
                # by-value vector parameter: callee receives its own copy; rendered as pointer to a harness-owned copy
                p.decl_ref[c['id']] = True
                p.fire('param:by-value-vector-as-pointer')
                params.append('%s *%s' % (ct, c['name']))
            else:
                params.append('%s %s' % (ct, c['name']))
    # return type
    rq = fn['type']['qualType'].split('(')[0].strip()
    ret = 'void'
    if rq != 'void' and not unit.get('abstract'):
        if types.is_vec(rq):
            p.ret_vec = types.c(rq)
            params.append('%s *ret' % p.ret_vec)
            p.fire('return:vector-as-out-param')
        else:
            ret = types.c(rq)
    body = [c for c in fn['inner'] if c.get('kind') == 'CompoundStmt'][0]
    if unit.get('abstract') == 'sizes':
        p.local_ids = set()
        p.sz_locals = {}
        p.sz_local_types = {}
        if unit.get('sz_params'):
            for c in fn.get('inner', []):
                if c.get('kind') == 'ParmVarDecl':
                    tq = Types.strip(c['type'].get('desugaredQualType') or c['type']['qualType'])
                    if tq in SCALARS and not types.is_ref(c['type']['qualType']):
                        p.sz_locals[c['id']] = c['name']
                        p.sz_local_types[c['name']] = SCALARS[tq]
                        params.append('%s %s' % (SCALARS[tq], c['name']))
        btxt = p.st_sz(body, 0)
        def elem_havoc(mm):
            pre_ = mm.group(2)
            reg_ = unit['_selfs'].get(unit['self'], {})
            hv_ = ''.join('{ %s nd_; self->%s = nd_; } ' % (ct_, nm_) for nm_, ct_ in reg_.items() if nm_.startswith('f_' + pre_ + '_') or nm_.startswith('sz_' + pre_ + '_'))
            return mm.group(1) + '/* another element: its fields are arbitrary */ ' + hv_
        btxt = re.sub(r'(^[ \t]*)/\*@ELEM (\w+)@\*/', elem_havoc, btxt, flags=re.M)
        ret = 'void'
    elif unit.get('abstract'):
        btxt = p.st_abs(body, 0)
        ret = 'void'
    else:
        btxt = p.st(body, 0)
    sig = '%s %s(%s)' % (ret, cname, ', '.join(params) if params else 'void')
    return {'sig': sig, 'body': btxt, 'printer': p, 'ret': ret, 'params': params,
            'line': fn.get('loc', {}).get('line') or fn.get('range', {}).get('begin', {}).get('line'),
            'file': fn.get('loc', {}).get('file')}
