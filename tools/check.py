#!/usr/bin/env python3
"""
check.py <PROPERTY> [--tier quick|thorough]

Runs every contract unit registered for the property (key `properties:` in /verif/contracts/*.spec) against
/repo's CURRENT working tree, writes /verif/evidence/<PROPERTY>.json and prints the verdict.

exit 0 : every obligation of every unit discharged (KNOWN-FINDING lines for listed findings)
exit 1 : "VIOLATION property=<id> replay=<path>"  -- only for obligations the back end REFUTED and triage confirmed
exit 2 : "UNDECIDED ..."  -- extraction break / spliced text does not compile / timeout / solver unknown / tool crash
"""
import os, sys, json, time, argparse, re, traceback
from concurrent.futures import ProcessPoolExecutor, as_completed

HERE = os.path.dirname(os.path.abspath(__file__))
VERIF = os.path.dirname(HERE)
sys.path.insert(0, HERE)
import driver, spec as specmod
import triage

PROP_META = os.path.join(VERIF, 'contracts', 'properties_meta.json')


def load_known():
    """known_findings.txt:  finding: property=<id> unit=<unit> obligation=<regex> -- text
                            fixed: property=<id> <commit> <what failed>           (suppresses nothing)"""
    path = os.path.join(VERIF, 'known_findings.txt')
    out = []
    if os.path.exists(path):
        for line in open(path):
            line = line.strip()
            if line.startswith('finding:'):
                m = re.match(r'finding:\s*property=(\S+)\s+unit=(\S+)\s+obligation=(\S+)\s*(?:--\s*(.*))?$', line)
                if m:
                    out.append({'property': m.group(1), 'unit': m.group(2), 'obligation': m.group(3), 'text': m.group(4) or ''})
    return out


def run_unit(args):
    name, tier, jobs = args
    units = specmod.load_all(os.path.join(VERIF, 'contracts'))
    try:
        return driver.verify_unit(units[name], units, tier, jobs=jobs)
    except Exception as e:
        return {'unit': name, 'status': 'undecided', 'reason': 'driver exception: %s\n%s' % (e, traceback.format_exc()[-1500:]),
                'obligations': 0, 'discharged': 0, 'failed': [], 'solver_s': 0.0}


def main():
    ap = argparse.ArgumentParser()
    ap.add_argument('prop')
    ap.add_argument('--tier', default=os.environ.get('VERIF_TIER', 'quick'))
    ap.add_argument('--jobs', type=int, default=int(os.environ.get('VERIF_JOBS', '16')))
    ap.add_argument('--only', default=None, help='comma list of unit names (debugging)')
    a = ap.parse_args()
    seed = int(os.environ.get('VERIF_SEED', '0') or 0)
    t0 = time.time()
    if a.prop == 'C05':
        return main_c05(a, seed, t0)
    units = specmod.load_all(os.path.join(VERIF, 'contracts'))
    mine = [n for n, u in units.items() if a.prop in u.get('properties', []) and u.get('kind') != 'stub']
    if a.tier == 'quick':
        mine = [n for n in mine if units[n].get('tier', 'quick') == 'quick']
    if a.only:
        mine = [n for n in mine if n in a.only.split(',')]
    if not mine:
        print('UNDECIDED property=%s reason=no contract units registered' % a.prop)
        sys.exit(2)
    results = {}
    # heavy units first
    order = sorted(mine, key=lambda n: -float(units[n].get('cost', 10)))
    per_unit_jobs = max(1, a.jobs // max(1, min(len(order), a.jobs)))
    with ProcessPoolExecutor(max_workers=min(a.jobs, len(order))) as ex:
        futs = {ex.submit(run_unit, (n, a.tier, per_unit_jobs)): n for n in order}
        for f in as_completed(futs):
            r = f.result()
            results[r['unit']] = r
            print('[%s] %-52s %-9s %5d/%-5d %6.1fs %s' % (a.prop, r['unit'], r['status'], r.get('discharged', 0), r.get('obligations', 0),
                                                       r.get('solver_s', 0.0), (r.get('reason') or '').split('\n')[0][:140]), flush=True)
    known = load_known()
    violations = []
    known_hits = []
    undecided = []
    for n in mine:
        r = results[n]
        rs = r.get('reason') or ''
        if r['status'] == 'undecided' and any(k.startswith('loop ') for k in units[n]['sections']) and (
                ('SPEC-ERROR' in rs and 'loops in the extracted body' in rs) or ('has no matching place in the extracted body' in rs)):
            # the loop structure of the body changed: my loop contracts no longer attach; decide small instances without them
            r['failed'] = [{'obligation': n + '.loop-structure', 'text': rs[:200]}]
            r['status'] = 'refuted'
            r['only_unknown'] = True
        if r['status'] == 'undecided' and 'goto-cc failed' in (r.get('reason') or '') and any(k.startswith('loop ') for k in units[n]['sections']):
            # my loop contracts no longer compile against the extracted body (e.g. a renamed local): the function contract only
            # names parameters, so the invariant-independent bounded re-check can still decide small instances
            r['failed'] = [{'obligation': n + '.loop-contract-splice', 'text': 'loop contract text does not compile against the current body: ' + (r.get('reason') or '').split('\n')[2][:200] if len((r.get('reason') or '').split('\n')) > 2 else 'loop contract text does not compile'}]
            r['status'] = 'refuted'
            r['only_unknown'] = True
        if r['status'] == 'undecided' and r.get('undecided_obligations') and not r.get('failed'):
            # solver `unknown`/timeout on named obligations: only an invariant-independent counterexample can make this a violation
            r['failed'] = [{'obligation': o, 'text': 'no verdict from the back end (unknown/timeout)'} for o in r['undecided_obligations']]
            r['status'] = 'refuted'
            r['only_unknown'] = True
        if r['status'] == 'undecided' and 'EXTRACTION-BREAK' in (r.get('reason') or '') and (units[n].get('replay') or '').split()[:1] in (['c18_native'], ['hdr_native'], ['c13_native'], ['nvd_native']):
            # the function can no longer be brought within the verifier's reach: a BOUNDED stand-in takes over -- the native program
            # drives the REAL code (from the tree under check, ASan/UBSan) on every input / history of its small scope and compares with the
            # oracle written from the property statement.  A failing input found this way is a violation with a real input; a clean run
            # leaves the unit undecided (nothing is proved).
            import replay as _replay
            nat = _replay.run(units[n], a.prop, [], os.path.join(driver.WORK, 'units', n, 'native_standin'))
            if nat and nat.get('verdict') == 'reproduced':
                r['status'] = 'refuted'
                r['failed'] = [{'obligation': n + '.native-bounded-standin', 'text': 'extraction break (%s); bounded native stand-in %s finds a failing input' % ((r.get('reason') or '')[:120], units[n]['replay'])}]
                r['native_standin'] = nat
                violations.append((r, {'verdict': 'violation', 'replay': nat.get('file'), 'failing_input': True, 'reason': 'bounded native stand-in'}, r['failed']))
                continue
            r['reason'] = (r.get('reason') or '') + ' | bounded native stand-in (%s): %s' % (units[n]['replay'], (nat or {}).get('verdict'))
        if r['status'] == 'undecided':
            undecided.append(r)
        elif r['status'] == 'refuted':
            tri = triage.triage(units[n], units, r, a.prop, tier=a.tier)
            r['triage'] = {k: v for k, v in tri.items() if k != 'log'}
            own = units[n].get('internal_of')
            if tri['verdict'] == 'violation' and own and own in units:
                # this fragment speaks about an INTERNAL data structure of its function (a local table, a mark array): a different but
                # correct representation would refute it.  The function's own contract is the arbiter: if that unit still holds, the
                # fragment's refutation only says "the internals changed" -- undecided; if it fails too, it reports the violation itself.
                ro = results.get(own) if own in results and results[own]['status'] in ('proved', 'refuted') else driver.verify_unit(dict(units[own]), units, tier=a.tier)
                if ro['status'] == 'proved':
                    tri = {'verdict': 'undecided', 'replay': tri.get('replay'),
                           'reason': 'internal representation changed (fragment refuted) but the contract of the enclosing function (unit %s) still holds up to its bound -- see %s' % (own, tri.get('replay'))}
            if tri['verdict'] == 'violation':
                rest = []
                for fo in r['failed']:
                    k = [x for x in known if x['property'] == a.prop and x['unit'] == n and re.search(x['obligation'], fo['obligation'])]
                    if k:
                        known_hits.append((k[0], fo))
                    else:
                        rest.append(fo)
                if rest:
                    violations.append((r, tri, rest))
            else:
                r['status'] = 'undecided'
                r['reason'] = tri['reason']
                undecided.append(r)
    wall = time.time() - t0
    write_evidence(a, seed, units, mine, results, violations, undecided, known_hits, wall)
    for k, fo in known_hits:
        print('KNOWN-FINDING: property=%s unit=%s obligation=%s %s' % (a.prop, k['unit'], fo['obligation'], k['text']))
    rc = 0
    for r, tri, rest in violations:
        tail = '' if tri.get('failing_input') else ' no-failing-input-found'
        print('VIOLATION property=%s replay=%s%s' % (a.prop, tri['replay'], tail))
        for fo in rest:
            print('  failed obligation: unit=%s %s -- %s' % (r['unit'], fo['obligation'], fo['text']))
        rc = 1
    if rc == 0 and undecided:
        for r in undecided:
            print('UNDECIDED property=%s unit=%s reason=%s' % (a.prop, r['unit'], (r.get('reason') or '').replace('\n', ' | ')[:600]))
        rc = 2
    if rc == 0:
        tot = sum(results[n].get('obligations', 0) for n in mine)
        print('OK property=%s units=%d obligations=%d discharged=%d wall=%.0fs' % (
            a.prop, len(mine), tot, sum(results[n].get('discharged', 0) for n in mine), wall))
    sys.exit(rc)


def main_c05(a, seed, t0):
    """C05 is decided over a mechanical slice of ALL Sync bodies and enumerators (tools/c05.py), one CBMC run"""
    import c05
    res, obs, rep = c05.run_check(a.tier)
    print('[C05] %-52s %-9s %5d/%-5d %6.1fs %s' % ('slice of %d Sync bodies' % rep.get('classes_with_sync', 0), res['status'], res['discharged'], res['obligations'], res['solver_s'], res['reason'].split('\n')[0][:120]), flush=True)
    known = [k for k in load_known() if k['property'] == 'C05']
    rc = 0
    kn_hits = []
    viol = []
    if res['status'] == 'refuted':
        for fo in res['failed']:
            k = [x for x in known if re.search(x['obligation'], fo['obligation'])]
            (kn_hits if k else viol).append((k[0] if k else None, fo))
    wall = time.time() - t0
    replay = None
    if viol:
        d = os.path.join(driver.WORK, 'replay')
        os.makedirs(d, exist_ok=True)
        replay = os.path.join(d, 'C05_slice.txt')
        ctext = open(res['c_file']).read()
        with open(replay, 'w') as f:
            f.write('property: C05\nfailed obligations (refuted by CBMC, loop-free: the refutation stands):\n')
            for _, fo in viol:
                f.write('  %s -- %s\n' % (fo['obligation'], fo['text']))
                fn = fo['obligation'].split('.')[0]
                m = re.search(r'void %s\(void\)\n\{.*?\n\}' % re.escape(fn), ctext, re.S)
                if m:
                    f.write('    slice (serialised side vs enumerated side, conditions over version / members):\n' + '\n'.join('      ' + l for l in m.group(0).split('\n')) + '\n')
            f.write('\nverifier output with counterexample valuation:\n' + open(res['cbmc_log']).read()[-20000:])
    ev = {'property_id': 'C05', 'tier': a.tier, 'seed': seed, 'level': 'proof',
          'coverage': {'obligations': res['obligations'], 'discharged': res['discharged'] + len(kn_hits) * 0,
                       'checker_cmd': 'python3 tools/check.py C05  (tools/c05.py: clang AST of %d TUs -> slice -> goto-cc; cbmc)' % len(c05.TUS),
                       'trusted_base': ['clang 14 JSON AST', 'tools/c05.py slicing rules (which statements serialise / enumerate a reference member; loops = all elements; early returns)', 'class heads of include/*.hpp for the base-class chain', 'CBMC 6.11, MiniSat'],
                       'explanation': 'one obligation per (class, reference-bearing member): for every version, member valuation and element index, serialised => enumerated by GetChildRefs/GetPtrs (block refs) or GetStringRefs (string refs) of the class or a base class; and reported by GetChildRefs => reported by GetChildIndices',
                       'classes_with_sync': rep.get('classes_with_sync'), 'classes_with_enumerators': rep.get('classes_with_enumerators'),
                       'plain_structs_expanded_into_owners': rep.get('plain_structs_expanded_into_owners'),
                       'classes_listed_as_unchecked': rep.get('unchecked'), 'opaque_conditions': rep.get('opaque_conditions'),
                       'samples': [{'obligation': o['name'], 'class': o['class'], 'member': o['member'], 'kind': o['kind']} for o in obs[:8]],
                       'refuted': [fo['obligation'] for _, fo in viol], 'known_findings_hit': [fo['obligation'] for _, fo in kn_hits],
                       'not_covered': ['references serialised through raw stream.Sync(x.index) or hidden in switch-dispatched sub-structures of the classes listed as unchecked', 'that the enumerators are CALLED by every block-graph operation (C06 covers the operations)', 'NiUnknown payloads']},
          'assumptions': ['the slice is trusted: a statement shape the slicer does not recognise is either listed (unchecked classes) or, for conditions, replaced by a nondeterministic boolean shared between both sides when the expression is identical',
                          'write mode: members read in conditions have the same value in Sync and in the enumerators'],
          'wall_s': round(wall, 1), 'violations': len(viol)}
    evdir = os.environ.get('VERIF_EVIDENCE_DIR') or os.path.join(VERIF, 'evidence')
    os.makedirs(evdir, exist_ok=True)
    json.dump(ev, open(os.path.join(evdir, 'C05.json'), 'w'), indent=1)
    for k, fo in kn_hits:
        print('KNOWN-FINDING: property=C05 obligation=%s %s' % (fo['obligation'], k['text']))
    if viol:
        print('VIOLATION property=C05 replay=%s no-failing-input-found' % replay)
        for _, fo in viol:
            print('  failed obligation: %s -- %s' % (fo['obligation'], fo['text']))
        sys.exit(1)
    if res['status'] == 'undecided':
        print('UNDECIDED property=C05 reason=%s' % res['reason'].replace('\n', ' | ')[:500])
        sys.exit(2)
    print('OK property=C05 obligations=%d discharged=%d known_findings=%d wall=%.0fs' % (res['obligations'], res['discharged'], len(kn_hits), wall))
    sys.exit(0)


def write_evidence(a, seed, units, mine, results, violations, undecided, known_hits, wall):
    meta = json.load(open(PROP_META)).get(a.prop, {}) if os.path.exists(PROP_META) else {}
    proved = [n for n in mine if results[n]['status'] == 'proved' and not results[n].get('bounded')]
    bounded = [n for n in mine if results[n]['status'] == 'proved' and results[n].get('bounded')]
    obligations = sum(results[n].get('obligations', 0) for n in mine if not results[n].get('bounded'))
    discharged = sum(results[n].get('discharged', 0) for n in mine if not results[n].get('bounded'))
    fuc = []
    samples = []
    firings = {}
    assumptions = set(meta.get('assumptions', []))
    for n in mine:
        r = results[n]
        u = units[n]
        fuc.append({'unit': n, 'kind': u.get('kind', 'function'), 'source': u.get('tu'), 'decl': u.get('decl'), 'clang_signature': u.get('sig'),
                    'source_line': r.get('src_line'), 'status': r['status'], 'backend': r.get('backend'),
                    'mode': r['mode'] if r.get('mode') else ((('bounded(capacity=%s, unwind=%s)' % (u.get('cap', 5), u.get('unwind'))) if u.get('unwind') else ('bounded(capacity=%s; loop contracts, no unwinding)' % u.get('cap'))) if r.get('bounded') else 'unbounded (capacity 65536; loop contracts / loop-free)'),
                    'obligations': r.get('obligations', 0), 'discharged': r.get('discharged', 0), 'solver_s': round(r.get('solver_s', 0.0), 1),
                    'callees_replaced_by_contract': r.get('replaced', []), 'obligation_classes': r.get('obligation_classes', {})})
        for s in r.get('samples', [])[:2]:
            samples.append({'unit': n, **s})
        for k, v in (r.get('rule_firings') or {}).items():
            firings[k] = firings.get(k, 0) + v
        for s in u.get('sections', {}).get('assumes', '').split('\n'):
            if s.strip():
                assumptions.add('%s: %s' % (n, s.strip()))
        # model functions written in a unit's prelude (stand-ins for library code the unit does not extract): trusted, listed by name
        for mm in re.finditer(r'^[A-Za-z_][\w \*]*?\b(\w+)\s*\([^;{}]*\)\s*\{', u.get('sections', {}).get('prelude', ''), re.M):
            if u.get('kind') != 'lemma' or mm.group(1) != n:
                assumptions.add('%s: model function %s() is written in the unit prelude (trusted stand-in, not extracted code)' % (n, mm.group(1)))
        for c in r.get('replaced', []):
            if c in units and units[c].get('kind') == 'stub':
                assumptions.add('assumed contract (stub, not verified): %s -- %s' % (c, units[c].get('why', '')))
            elif c.endswith('_grow') or c.endswith('_ctor_n'):
                assumptions.add('vector shim %s: growth within CAP=65536, new slots unconstrained (over-approximates value-initialisation)' % c)
    # mechanical scan for assumptions in generated text
    for n in mine:
        cf = results[n].get('c_file')
        if cf and os.path.exists(cf) and '__CPROVER_assume' in open(cf).read():
            if units[n].get('abstract') == 'sizes' and any(k.startswith('sz_loop_inv') for k in units[n]):
                assumptions.add('%s: generated text contains __CPROVER_assume -- the loop abstraction by an inductive invariant: every assume(INV)/assume(loop condition) sits between an assertion that INV holds on loop entry and an assertion that one iteration from an arbitrary INV-state re-establishes it' % n)
            else:
                assumptions.add('%s: generated text contains __CPROVER_assume' % n)
    level = meta.get('level', 'proof')
    ev = {
        'property_id': a.prop, 'tier': a.tier, 'seed': seed, 'level': level,
        'coverage': {
            'obligations': obligations, 'discharged': discharged,
            'checker_cmd': 'python3 tools/check.py %s --tier %s  (per unit: goto-cc; goto-instrument --dfcc --enforce-contract <fn> --replace-call-with-contract <callees> --apply-loop-contracts; cbmc [--cvc5] --bounds-check --pointer-check --div-by-zero-check --signed-overflow-check --undefined-shift-check --pointer-overflow-check)' % (a.prop, a.tier),
            'trusted_base': meta.get('trusted_base', []) + [
                'clang 14 JSON AST is the meaning of the source; tools/ast2c.py preserves it on its closed node table (DESIGN.md 3.1/3.2)',
                'CBMC 6.11 dfcc instrumentation, MiniSat, cvc5 1.0',
                'shim/nvec.h states the behaviour of the std::vector members used; capacity <= 65536 elements, no aliasing between distinct containers'],
            'functions_under_contract': fuc,
            'units_proved_unbounded': proved,
            'units_bounded_standin': [{'unit': n, 'capacity': units[n].get('cap', 65536 if units[n].get('outer_unwind') else 5), 'unwind': units[n].get('unwind') or units[n].get('outer_unwind'), 'obligations': results[n].get('obligations', 0)} for n in bounded],
            'not_covered': meta.get('not_covered', []),
            'rule_firings': firings,
            'samples': samples[:12],
            'explanation': meta.get('explanation', ''),
            'undecided_units': [{'unit': r['unit'], 'reason': (r.get('reason') or '')[:500]} for r in undecided],
            'refuted': [{'unit': r['unit'], 'obligations': [f['obligation'] for f in rest], 'replay': tri.get('replay')} for r, tri, rest in violations],
            'known_findings_hit': [{'unit': k['unit'], 'obligation': fo['obligation']} for k, fo in known_hits],
            'solver_seconds_total': round(sum(results[n].get('solver_s', 0.0) for n in mine), 1),
        },
        'assumptions': sorted(assumptions),
        'wall_s': round(wall, 1),
        'violations': len(violations),
    }
    evdir = os.environ.get('VERIF_EVIDENCE_DIR') or os.path.join(VERIF, 'evidence')
    os.makedirs(evdir, exist_ok=True)
    json.dump(ev, open(os.path.join(evdir, a.prop + '.json'), 'w'), indent=1)


if __name__ == '__main__':
    main()
