#!/bin/bash
# Harmless refactorings of functions under contract (development aid, not a registered check): each must end with exit 0 (still
# proved) or exit 2 (undecided), never with a VIOLATION.  usage: tools/benign.sh   -- runs tools/muttry.sh per probe.
cd /verif
bad=0
probe() { # name prop units file pattern replacement
  out=$(tools/muttry.sh "$2" "$3" "$4" "$5" "$6" 2>&1); rc=$(echo "$out" | grep -a -o "MUTTRY rc=[0-9]*" | sed 's/.*=//')
  if [ "$rc" = "0" ] || [ "$rc" = "2" ]; then echo "ok    $1 exit=$rc"; else echo "ALARM $1 exit=$rc"; echo "$out" | grep -a -E "VIOLATION|failed obl" | head -4; bad=1; fi
}
probe find-vs-count C04 NifFile__SortCollision_once src/NifFile.cpp 'if \(sortState.visitedIndices.count\(parentIndex\) == 0\) \{' 'if (sortState.visitedIndices.find(parentIndex) == sortState.visitedIndices.end()) {'
probe assign-vs-resize C16 SZ_NiGeometryData src/Geometry.cpp 'vertices.resize\(numVertices\);\n\t\tfor \(uint16_t i = 0; i < numVertices; i\+\+\)\n\t\t\tstream.Sync\(vertices\[i\]\);' 'vertices.assign(numVertices, Vector3());\n\t\tfor (uint16_t i = 0; i < numVertices; i++)\n\t\t\tstream.Sync(vertices[i]);'
probe reorder-counters C09 BSTriShape__nvd_modular,BSDynamicTriShape__notifyVerticesDelete src/Geometry.cpp '\tEraseVectorIndices\(vertData, vertIndices\);\n\tnumVertices = static_cast<uint16_t>\(vertData.size\(\)\);\n\n\tApplyMapToTriangles\(triangles, indexCollapse, &deletedTris\);\n\tnumTriangles = static_cast<uint32_t>\(triangles.size\(\)\);' '\tEraseVectorIndices(vertData, vertIndices);\n\tApplyMapToTriangles(triangles, indexCollapse, &deletedTris);\n\tnumTriangles = static_cast<uint32_t>(triangles.size());\n\tnumVertices = static_cast<uint16_t>(vertData.size());'
probe ternary-staging C01 LEMMA_C01_NiSkinData_numverts src/Skin.cpp '\t\tuint16_t numVerts = boneData.numVertices;\n\t\tif \(!hasVertWeights\)\n\t\t\tnumVerts = 0;\n' '\t\tuint16_t numVerts = hasVertWeights ? boneData.numVertices : uint16_t(0);\n'
probe size-vs-empty C09 NiGeometryData__notifyVerticesDelete,NiGeometryData_nvd_arrays src/Geometry.cpp 'if \(!normals.empty\(\)\)\n\t\tEraseVectorIndices\(normals, vertIndices\);' 'if (normals.size() > 0)\n\t\tEraseVectorIndices(normals, vertIndices);'
probe flag-after-data C13 NifFile__SetUvsForShape_flag src/NifFile.cpp '\t\t\tbsTriShape->SetUVs\(true\);\n\n\t\t\tfor \(uint16_t i = 0; i < bsTriShape->GetNumVertices\(\); i\+\+\)\n\t\t\t\tbsTriShape->vertData\[i\].uv = uvs\[i\];' '\t\t\tfor (uint16_t i = 0; i < bsTriShape->GetNumVertices(); i++)\n\t\t\t\tbsTriShape->vertData[i].uv = uvs[i];\n\n\t\t\tbsTriShape->SetUVs(true);'
probe explicit-min C17 BSSITS_GetSegmentation_segment_range src/Geometry.cpp 'uint32_t endIndex = std::min\(numTris, startIndex \+ seg.numPrimitives\);\n\n\t\tfor \(uint32_t id = startIndex; id < endIndex; id\+\+\)\n\t\t\ttriParts\[id\] = partID;' 'uint32_t endIndex = startIndex + seg.numPrimitives;\n\t\tif (endIndex > numTris)\n\t\t\tendIndex = numTris;\n\n\t\tfor (uint32_t id = startIndex; id < endIndex; id++)\n\t\t\ttriParts[id] = partID;'
probe hoist-and-clear C09 NiSkinPartition_nvd_dellist,NiSkinPartition_nvd_erase,NiSkinPartition_nvd_triangles src/Skin.cpp '\tfor \(auto& p : partitions\) \{\n\t\tconst size_t oldNumVertices = p.vertexMap.size\(\);\n\n\t\t// Make list of deleted vertexMap indices\n\t\tstd::vector<uint32_t> vertexMapDelList;\n' '\tstd::vector<uint32_t> vertexMapDelList;\n\tfor (auto& p : partitions) {\n\t\tconst size_t oldNumVertices = p.vertexMap.size();\n\n\t\tvertexMapDelList.clear();\n'
rm -rf /tmp/muttry
exit $bad
