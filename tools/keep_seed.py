#!/usr/bin/env python3
"""keep_seed.py <ID> -- copy confirmed sub-agent changes from /tmp/seed/<ID>/_out/<n> to /verif/seeded/<ID>-<n>/"""
import sys, os, json, shutil, re
ID = sys.argv[1]
base = '/tmp/seed/%s/_out' % ID
for n in sorted(os.listdir(base)):
    d = os.path.join(base, n)
    c = os.path.join(d, 'confirm.txt')
    if not n.isdigit() or not os.path.exists(c):
        continue
    t = open(c).read()
    ok = 'demo_pristine_rc=0' in t and 'build=ok' in t and '100% tests passed' in t and re.search(r'demo_patched_rc=(?!0\b)\d+', t)
    if not ok:
        print('NOT CONFIRMED', d)
        continue
    out = '/verif/seeded/%s-%s' % (ID, n)
    os.makedirs(out, exist_ok=True)
    for f in ('patch.diff', 'demo.cpp', 'README.md'):
        if os.path.exists(os.path.join(d, f)):
            shutil.copy(os.path.join(d, f), out)
    files = re.findall(r'^\+\+\+ b/(\S+)', open(os.path.join(d, 'patch.diff')).read(), re.M)
    readme = open(os.path.join(d, 'README.md')).read() if os.path.exists(os.path.join(d, 'README.md')) else ''
    meta = {'property': ID, 'files_touched': files,
            'needs_to_manifest': 'see README.md (written by the sub-agent that produced the change)',
            'origin': 'fresh sub-agent given only the property record and a scratch worktree; nothing from /verif',
            'confirmed_by_me': {'what_i_ran': 'scratch worktree /tmp/seed/%s: git apply patch.diff; cmake --build; ctest (28 tests); g++ demo.cpp against the patched and the pristine libnifly.a' % ID,
                                'tests_with_patch': '100% passed (28)', 'demo_pristine_rc': 0,
                                'demo_patched_rc': int(re.search(r'demo_patched_rc=(\d+)', t).group(1))},
            'detected_by': 'TBD'}
    json.dump(meta, open(os.path.join(out, 'meta.json'), 'w'), indent=1)
    print('kept', out, files)
