#!/usr/bin/env python3
"""native replay: hand the verifier's counterexample scope to a program that drives the REAL code of the tree under check
(compiled with ASan/UBSan) and evaluates the property natively.  Only header-only families can be replayed without building
the library; unit key `replay: <program> <args>`."""
import os, subprocess, time
import driver

VERIF = driver.VERIF


LIB_PROGS = ('hdr_native', 'c13_native', 'nvd_native')     # programs that link the library of the tree under check


def build_library(repo):
    """libnifly.a of the tree under check, with ASan/UBSan, cached by the tree stamp"""
    bdir = os.path.join(driver.WORK, 'native_lib_' + driver.tree_stamp())
    lib = os.path.join(bdir, 'src', 'libnifly.a')
    if os.path.exists(lib):
        return lib, ''
    for d in os.listdir(driver.WORK) if os.path.isdir(driver.WORK) else []:
        if d.startswith('native_lib_') and d != os.path.basename(bdir):
            import shutil
            shutil.rmtree(os.path.join(driver.WORK, d), ignore_errors=True)
    flags = '-fsanitize=address,undefined -fno-sanitize-recover=undefined -O1 -g -Wno-error'
    r = subprocess.run(['cmake', '-G', 'Ninja', '-S', repo, '-B', bdir, '-DCMAKE_BUILD_TYPE=RelWithDebInfo', '-DBUILD_TESTING=OFF', '-DCMAKE_CXX_FLAGS=' + flags],
                       stdout=subprocess.PIPE, stderr=subprocess.STDOUT, text=True)
    if r.returncode != 0:
        return None, r.stdout[-2000:]
    r = subprocess.run(['cmake', '--build', bdir, '-j', '16', '--target', 'nifly'], stdout=subprocess.PIPE, stderr=subprocess.STDOUT, text=True)
    if r.returncode != 0 or not os.path.exists(lib):
        return None, r.stdout[-3000:]
    return lib, ''


def run(unit, prop, values, outdir):
    spec = unit.get('replay', '').split()
    if not spec:
        return None
    src = os.path.join(VERIF, 'replay', spec[0] + '.cpp')
    os.makedirs(outdir, exist_ok=True)
    exe = os.path.join(outdir, spec[0])
    repo = driver.REPO
    cmd = ['g++', '-std=c++17', '-O1', '-g', '-fsanitize=address,undefined', '-fno-sanitize-recover=undefined',
           '-I' + os.path.join(repo, 'include'), '-I' + os.path.join(repo, 'external'), src, '-o', exe]
    if spec[0] in LIB_PROGS:
        lib, err = build_library(repo)
        if lib is None:
            return {'verdict': 'no-replay', 'log': 'the library of the tree under check does not build:\n' + err, 'file': None}
        cmd = cmd[:-2] + [lib, '-o', exe]
    r = subprocess.run(cmd, stdout=subprocess.PIPE, stderr=subprocess.STDOUT, text=True)
    if r.returncode != 0:
        return {'verdict': 'no-replay', 'log': 'replay program does not build against the tree under check:\n' + r.stdout[-3000:], 'file': None}
    try:
        rr = subprocess.run([exe] + spec[1:], stdout=subprocess.PIPE, stderr=subprocess.STDOUT, text=True, timeout=300)
        out, rc = rr.stdout, rr.returncode
    except subprocess.TimeoutExpired:
        return {'verdict': 'no-replay', 'log': 'replay timed out', 'file': None}
    path = os.path.join(driver.WORK, 'replay', '%s_%s_native.txt' % (prop, unit['name']))
    os.makedirs(os.path.dirname(path), exist_ok=True)
    open(path, 'w').write('native replay: %s\nexit status %d\n%s\n(program: %s, compiled against %s with -fsanitize=address,undefined)\n' % (
        ' '.join(spec), rc, out[-6000:], src, repo))
    if rc != 0:
        return {'verdict': 'reproduced', 'log': out[-3000:], 'file': path}
    return {'verdict': 'clean', 'log': out[-2000:], 'file': path}
